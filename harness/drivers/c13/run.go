package c13

// run.go: evaluation of one item on the REAL code and the NDJSON line it becomes.
// One line per script / expression (it is its own trace: {"ev":"Reset", ...}); every
// field TickExprTrace.tla reads is always present (TLC cannot test for a missing key
// cheaply): strings default to "", trees to ["nil",""], lists to [].

import (
	"fmt"
	"regexp"
	"runtime"
	"strings"
	"sync"

	"github.com/influxdata/kapacitor/pipeline"
	"github.com/influxdata/kapacitor/tick/ast"

	"kapverif/rt"
)

var nilTree = T{"nil", ""}

// OutDir: the driver's output directory (tickfmt binary and its work files live there).
var OutDir string

// histWanted: the multi-step API histories and the tickfmt subprocesses cost ~30 requests /
// 6 processes per script: every literal and hand-written item, every third line-ending,
// every eighth member-sweep and every fifth random one.
func histWanted(it item) bool {
	switch it.Cls {
	case "lit", "hand":
		return true
	case "eol":
		return len(it.Src)%3 == 0
	case "member":
		return len(it.Src)%8 == 0
	default:
		return len(it.Src)%5 == 0
	}
}

// apiHistWanted: the histories (about 30 requests, each compiling the task) on half of those.
func apiHistWanted(it item) bool {
	return histWanted(it) && (it.Cls == "hand" || len(it.Src)%2 == 0)
}

var (
	apiOnce sync.Once
	apiW    *apiWorld
)

// theAPI: one task store service stack per driver process.
func theAPI() *apiWorld {
	apiOnce.Do(func() {
		w, err := openAPI()
		if err != nil {
			rt.Fatalf("task store service: %v", err)
		}
		apiW = w
	})
	return apiW
}

type outcome struct {
	Tag  string // appended to every signature: the catalogue records WHICH item deviates HOW
	Line rt.M
	Devs []string // deviation keys (scan / distinct counting)
	Note []string // human readable first differences
	Sigs []sigEx  // catalogue signatures hit (stage B / C)
	Skip bool     // the script does not define a task: not part of the quantifier
}

type sigEx struct{ Sig, Note string }

func (o *outcome) dev(key, note string) {
	o.Devs = append(o.Devs, key)
	if len(note) > 600 {
		note = note[:600] + "..."
	}
	o.Note = append(o.Note, key+": "+note)
}

// ---------------------------------------------------------------------------
// signatures of deviations in the pipeline/tick and pipeline JSON stages

var (
	reLineChar = regexp.MustCompile(`line \d+ char \d+:? ?`)
	reQuoted   = regexp.MustCompile(`"(\\.|[^"\\])*"`)
	reNum      = regexp.MustCompile(`\d+`)
	reObj      = regexp.MustCompile(`obj \*pipeline\.\w+`)
	reInCtx    = regexp.MustCompile(` in S\. expected.*$`)
	reField    = regexp.MustCompile(`Go struct field \S+ of type`)
)

// normErr: the class of an error message (positions, quoted text, numbers and the
// receiver type of a reflective call removed).
func normErr(msg string) string {
	m := msg
	if i := strings.Index(m, "\n"); i >= 0 {
		m = m[:i]
	}
	if strings.HasPrefix(m, "parser: ") {
		// "parser: unexpected X line N char N in "context". expected: ...": the class is X
		if i := strings.Index(m, " line "); i > 0 {
			m = m[:i]
		}
		if i := strings.Index(m, ", last char"); i > 0 {
			m = m[:i]
		}
		if i := strings.Index(m, ": \""); i > 0 {
			m = m[:i] // illegal number syntax: "..."
		}
		return m
	}
	m = reLineChar.ReplaceAllString(m, "")
	m = reQuoted.ReplaceAllString(m, "S")
	m = reInCtx.ReplaceAllString(m, "")
	m = reObj.ReplaceAllString(m, "obj")
	m = reField.ReplaceAllString(m, "Go struct field of type")
	m = reNum.ReplaceAllString(m, "N")
	m = strings.TrimSpace(m)
	if len(m) > 110 {
		m = m[:110]
	}
	return m
}

func (o *outcome) sig(list *[]any, s, note string) {
	s += "@" + o.Tag
	*list = append(*list, s)
	if len(note) > 500 {
		note = note[:500] + "..."
	}
	o.Sigs = append(o.Sigs, sigEx{s, note})
	o.Devs = append(o.Devs, s)
	o.Note = append(o.Note, s+": "+note)
}

// ---------------------------------------------------------------------------

// lambdasOf: every lambda expression of a program, in source order.
func lambdasOf(n ast.Node) []*ast.LambdaNode {
	var out []*ast.LambdaNode
	var walk func(ast.Node)
	walk = func(n ast.Node) {
		switch x := n.(type) {
		case *ast.LambdaNode:
			out = append(out, x)
			walk(x.Expression)
		case *ast.ProgramNode:
			for _, c := range x.Nodes {
				walk(c)
			}
		case *ast.DeclarationNode:
			walk(x.Right)
		case *ast.ChainNode:
			walk(x.Left)
			walk(x.Right)
		case *ast.FunctionNode:
			for _, c := range x.Args {
				walk(c)
			}
		case *ast.BinaryNode:
			walk(x.Left)
			walk(x.Right)
		case *ast.UnaryNode:
			walk(x.Node)
		case *ast.ListNode:
			for _, c := range x.Nodes {
				walk(c)
			}
		}
	}
	walk(n)
	return out
}

// input classes of two known limitations of the JSON form of lambdas
func hasBigInt(t T) bool {
	if t[0] == "int" {
		s := strings.TrimPrefix(t[1].(string), "-")
		// |v| > 2^53 = 9007199254740992
		return len(s) > 16 || (len(s) == 16 && s > "9007199254740992")
	}
	for _, c := range t[2:] {
		if hasBigInt(c.(T)) {
			return true
		}
	}
	return false
}

func hasTrailingBackslash(t T) bool {
	if (t[0] == "str" || t[0] == "ref") && strings.HasSuffix(t[1].(string), `\`) {
		return true
	}
	for _, c := range t[2:] {
		if hasTrailingBackslash(c.(T)) {
			return true
		}
	}
	return false
}

// lambdaStages: JSON round trip of one lambda and the text of what came back.
// parens: keep the Parens flag in the logged trees (kernel) or not (statements).
func lambdaStages(l *ast.LambdaNode, parens bool, o *outcome) rt.M {
	t := Canon(l, parens, false)
	m := rt.M{"t": t, "tj": nilTree, "tjf": nilTree, "jerr": "", "ferr": "", "perr": "", "eq": false, "jtext": "",
		"big": hasBigInt(t), "tbs": hasTrailingBackslash(t)}
	lj, e := astJSON(l)
	m["jerr"] = e
	if e != "" {
		o.dev("lam:json-err", e)
		return m
	}
	tj := Canon(lj, parens, false)
	m["tj"] = tj
	if S(Canon(lj, false, false)) != S(Canon(l, false, false)) {
		o.dev("lam:json-tree", S(t)+" -> "+S(tj))
	}
	eq := false
	_ = safe(func() { eq = l.Equal(lj) })
	m["eq"] = eq
	if !eq {
		o.dev("lam:json-equal", S(t))
	}
	// the text of the tree that came back must denote the same expression
	txt, e := astFormat(lj)
	m["ferr"] = e
	if e != "" {
		o.dev("lam:json-format-err", e)
		return m
	}
	m["jtext"] = strings.TrimPrefix(txt, "lambda: ")
	back, e := parse("var x = " + txt)
	m["perr"] = e
	if e != "" {
		o.dev("lam:json-format-reparse", e+" in "+txt)
		return m
	}
	var lb ast.Node
	if p, ok := back.(*ast.ProgramNode); ok && len(p.Nodes) == 1 {
		if d, ok := p.Nodes[0].(*ast.DeclarationNode); ok {
			lb = d.Right
		}
	}
	m["tjf"] = Canon(lb, parens, false)
	if S(Canon(lb, false, false)) != S(Canon(l, false, false)) {
		o.dev("lam:json-format-tree", txt)
	}
	return m
}

func pipeDigests(p *Pipe) rt.M {
	return rt.M{"dot": digest(p.Dot), "props": digest(p.Props), "iso": digest(p.Iso), "json": digest(p.JSON)}
}

// renderAndCompare: text produced by pipeline/tick from `from` must define p0 again.
func renderAndCompare(p0 *Pipe, from *Pipe, edge string, o *outcome) rt.M {
	b := rt.M{"err": "", "pe": "", "iso": "", "sigs": []any{}, "skipped": false}
	sigs := []any{}
	ts, e := toTick(from.P)
	b["err"] = e
	if e != "" {
		o.sig(&sigs, "ptick:build:"+normErr(e), e)
	} else {
		p2 := mkPipe(ts, edge, nil)
		b["pe"] = p2.Err
		if p2.Err != "" {
			o.sig(&sigs, "ptick:reject:"+normErr(p2.Err), p2.Err+"\n"+ts)
		} else {
			b["iso"] = digest(p2.Iso)
			if p2.Iso != p0.Iso {
				for _, dp := range DiffPaths(p0.D, p2.D) {
					if strings.HasPrefix(dp, "graph") {
						o.sig(&sigs, "ptick:"+dp, firstDiff(p0.Iso, p2.Iso)+"\n"+ts)
					} else {
						o.sig(&sigs, "ptick:diff:"+dp, firstDiff(p0.Iso, p2.Iso)+"\n"+ts)
					}
				}
			}
		}
	}
	b["sigs"] = sigs
	return b
}

// evalScript: all stages for one statement-level item.
func evalScript(it item) *outcome {
	o := &outcome{Tag: it.Tag}
	ln := rt.M{"cls": "script", "kind": it.Cls, "edge": it.Edge, "src": it.Src, "tag": it.Tag}
	o.Line = ln
	n0, e := parse(it.Src)
	if e != "" {
		o.Skip = true
		o.Note = append(o.Note, "skipped: "+e)
		return o
	}
	p0 := mkPipe(it.Src, it.Edge, it.Vars)
	if p0.Err != "" {
		o.Skip = true
		o.Note = append(o.Note, "skipped: "+p0.Err)
		return o
	}
	// pipeline JSON is taken from a second, separately created pipeline: Marshal must not
	// be able to influence the other stages (and is checked to leave its pipeline unchanged)
	pj := mkPipe(it.Src, it.Edge, it.Vars)
	pj.marshal()
	p0.JSON, p0.JErr = pj.JSON, pj.JErr
	var after Dump
	_ = safe(func() { after = DumpPipeline(pj.P) })
	ln["mpure"] = after.Plain() == pj.Props
	if after.Plain() != pj.Props {
		o.dev("pjson:marshal-mutates", strings.Join(DiffPaths(pj.D, after), " ")+" "+firstDiff(pj.Props, after.Plain()))
	}

	t0 := Canon(n0, false, false)
	ln["t0"] = t0
	ln["o"] = pipeDigests(p0)
	ln["want"] = []any{}
	ln["has"] = true
	if it.Want != nil {
		ln["want"] = []any{it.Want.Kind, it.Want.Val}
		ln["has"] = hasLeaf(t0, it.Want.Kind, it.Want.Val)
		if !ln["has"].(bool) {
			o.dev("lit:value", it.Want.Text+" is not "+it.Want.Kind+" "+it.Want.Val+" in "+S(t0))
		}
	}

	// ---- A: Format (what the API returns, what tickfmt writes)
	f := rt.M{"err": "", "perr": "", "t1": nilTree, "eq": false, "st2": false, "st3": false, "pe": "", "dot": "", "props": "", "json": ""}
	ln["f"] = f
	f1, e := format(it.Src)
	f["err"] = e
	if e != "" {
		o.dev("fmt:err", e)
	} else {
		n1, e := parse(f1)
		f["perr"] = e
		if e != "" {
			o.dev("fmt:reparse", e+"\n"+f1)
		} else {
			t1 := Canon(n1, false, false)
			f["t1"] = t1
			eq := false
			_ = safe(func() { eq = n0.Equal(n1) })
			f["eq"] = eq
			if S(t1) != S(t0) {
				o.dev("fmt:tree", firstDiff(S(t0), S(t1))+"\n"+f1)
			} else if !eq {
				o.dev("fmt:equal", f1)
			}
			f2, e2 := format(f1)
			f3, e3 := format(f2)
			f["st2"] = e2 == "" && f2 == f1
			f["st3"] = e3 == "" && f3 == f2
			if !f["st3"].(bool) {
				o.dev("fmt:unstable3", firstDiff(f2, f3))
			} else if !f["st2"].(bool) {
				o.dev("obs:fmt-unstable2", firstDiff(f1, f2))
			}
			p1 := mkPipe(f1, it.Edge, it.Vars)
			f["pe"] = p1.Err
			if p1.Err != "" {
				o.dev("fmt:pipe-err", p1.Err+"\n"+f1)
			} else {
				if p1j := mkPipe(f1, it.Edge, it.Vars); p1j.Err == "" {
					p1j.marshal()
					p1.JSON, p1.JErr = p1j.JSON, p1j.JErr
				}
				f["dot"], f["props"], f["json"] = digest(p1.Dot), digest(p1.Props), digest(p1.JSON)
				if p1.Dot != p0.Dot {
					o.dev("fmt:dot", firstDiff(p0.Dot, p1.Dot))
				}
				if p1.Props != p0.Props {
					o.dev("fmt:props", firstDiff(p0.Props, p1.Props))
				}
				if p1.JSON != p0.JSON {
					o.dev("fmt:json", firstDiff(p0.JSON, p1.JSON))
				}
			}
		}
	}

	// ---- the script as the HTTP API of the task store returns it
	ln["api"] = theAPI().apiStage(it)
	if a := ln["api"].(rt.M); a["code"] == 200 {
		if S(a["t"].(T)) != S(t0) || S(a["lt"].(T)) != S(t0) || a["raw"] != true {
			o.dev("api:script", fmt.Sprint(a["ferr"]))
		}
	}

	// ---- histories on one id through the HTTP API, and the tickfmt tool on files
	ln["hist"], ln["tf"] = []any{}, []any{}
	if a := ln["api"].(rt.M); a["code"] == 200 && apiHistWanted(it) {
		ln["hist"] = theAPI().history(it)
		for _, st := range ln["hist"].([]any) {
			for _, ob := range st.(rt.M)["obs"].([]any) {
				m := ob.(rt.M)
				if m["f"] != m["r"] || m["l"] != m["r"] || m["r"] != m["exp"] || m["rawis"] != true {
					o.dev("api:history:"+st.(rt.M)["step"].(string)+":"+m["who"].(string), fmt.Sprint(m))
				}
			}
		}
	}
	if OutDir != "" && histWanted(it) {
		ln["tf"] = tickfmtStage(OutDir, it)
		for _, cs := range ln["tf"].([]any) {
			m := cs.(rt.M)
			if m["rcw"] != 0 || m["rcout"] != 0 || m["st"] != m["t"] || m["wt"] != m["t"] || m["wsame"] != true || m["bak"] != true || m["untouched"] != true {
				o.dev("tickfmt:"+m["v"].(string)+":"+m["size"].(string), fmt.Sprint(m))
			}
		}
	}

	// ---- D: lambda JSON
	lams := []any{}
	for _, l := range lambdasOf(n0) {
		lams = append(lams, lambdaStages(l, false, o))
	}
	ln["lams"] = lams

	// pipeline/tick and pipeline JSON deviate from the property in many catalogued ways; the
	// catalogue (TickExprKnown.tla) is complete for the deterministic sweeps only, so seeded
	// random compositions are verdict-level for Format and lambda JSON and observed here
	skip := rt.M{"err": "", "pe": "", "iso": "", "sigs": []any{}, "skipped": true}
	if it.Cls == "random" || it.Cls == "eol" {
		ln["b"], ln["cb"] = skip, skip
		ln["c"] = rt.M{"merr": "", "uerr": "", "iso": "", "rejson": false, "sigs": []any{}, "skipped": true}
		oo := &outcome{Tag: it.Tag}
		if it.Cls == "random" {
			renderAndCompare(p0, p0, it.Edge, oo)
		}
		for _, sg := range oo.Sigs {
			o.Devs = append(o.Devs, "obs:random:"+sg.Sig)
			o.Note = append(o.Note, "obs:random:"+sg.Sig+": "+sg.Note)
		}
		return o
	}

	// ---- B: pipeline -> TICKscript (pipeline/tick) -> pipeline
	ln["b"] = renderAndCompare(p0, p0, it.Edge, o)

	// ---- C: pipeline -> JSON -> pipeline, and that pipeline -> TICKscript -> pipeline
	c := rt.M{"merr": p0.JErr, "uerr": "", "iso": "", "rejson": false, "sigs": []any{}, "skipped": false}
	ln["c"] = c
	ln["cb"] = rt.M{"err": "", "pe": "", "iso": "", "sigs": []any{}, "skipped": true}
	sigs := []any{}
	if p0.JErr != "" {
		o.sig(&sigs, "pjson:marshal:"+normErr(p0.JErr), p0.JErr)
	} else {
		p3 := fromJSON(p0.JSON)
		c["uerr"] = p3.Err
		if p3.Err != "" {
			o.sig(&sigs, "pjson:read:"+normErr(p3.Err), p3.Err)
		} else {
			c["iso"] = digest(p3.Iso)
			if p3.Iso != p0.Iso {
				for _, dp := range DiffPaths(p0.D, p3.D) {
					if strings.HasPrefix(dp, "graph") {
						o.sig(&sigs, "pjson:"+dp, firstDiff(p0.Iso, p3.Iso))
					} else {
						o.sig(&sigs, "pjson:diff:"+dp, firstDiff(p0.Iso, p3.Iso))
					}
				}
			} else {
				// the pipeline that came back is the same: render IT to TICKscript
				ln["cb"] = renderAndCompare(p0, p3, it.Edge, o)
			}
			if p3j := fromJSON(p0.JSON); p3j.Err == "" {
				p3j.marshal()
				c["rejson"] = p3j.JSON == p0.JSON
				if p3j.JSON != p0.JSON {
					o.dev("obs:pjson-rejson", firstDiff(p0.JSON, p3j.JSON))
				}
			}
		}
	}
	c["sigs"] = sigs
	return o
}

var emptyLam = rt.M{"t": nilTree, "tj": nilTree, "tjf": nilTree, "jerr": "", "ferr": "", "perr": "", "eq": false, "jtext": "", "big": false, "tbs": false}

// evalExpr: one kernel expression (tokens known by construction).
func evalExpr(it item) *outcome {
	o := &outcome{}
	ln := rt.M{"cls": "expr", "src": it.Src, "toks": toksJSON(it.Toks), "ml": it.ML, "tag": it.Tag,
		"perr": "", "t0": nilTree, "ftext": "", "t1": nilTree, "st2": false, "st3": false,
		"tp": nilTree, "pf": false, "lam": emptyLam}
	o.Line = ln
	script := "var l = lambda: " + it.Src + "\n"
	n0, e := parse(script)
	ln["perr"] = e
	if e != "" {
		o.dev("expr:parse", e)
		return o
	}
	lam := n0.(*ast.ProgramNode).Nodes[0].(*ast.DeclarationNode).Right.(*ast.LambdaNode)
	t0 := Canon(lam.Expression, true, false)
	ln["t0"] = t0
	f1, e := format(script)
	if e != "" {
		ln["perr"] = "format: " + e
		o.dev("expr:format", e)
	} else {
		ln["ftext"] = strings.TrimSuffix(strings.TrimPrefix(f1, "var l = lambda: "), "\n")
		n1, e := parse(f1)
		if e != "" {
			ln["perr"] = "reparse: " + e
			o.dev("expr:reparse", e)
		} else {
			if p, ok := n1.(*ast.ProgramNode); ok && len(p.Nodes) == 1 {
				if d, ok := p.Nodes[0].(*ast.DeclarationNode); ok {
					if l1, ok := d.Right.(*ast.LambdaNode); ok {
						ln["t1"] = Canon(l1.Expression, true, false)
					}
				}
			}
			f2, e2 := format(f1)
			f3, e3 := format(f2)
			ln["st2"] = e2 == "" && f2 == f1
			ln["st3"] = e3 == "" && f3 == f2
		}
	}
	m := lambdaStages(lam, true, o)
	// kernel trees are logged without the "lam" wrapper
	for _, k := range []string{"t", "tj", "tjf"} {
		if t := m[k].(T); len(t) == 3 && t[0] == "lam" {
			m[k] = t[2]
		}
	}
	ln["lam"] = m
	// the lambda as the pipeline holds it, from the original and from the formatted script
	ps := "var v = 2\nstream\n    |from()\n    |where(lambda: " + it.Src + ")\n" // v: see KernelEnv in TickExprTrace.tla
	p0 := mkPipe(ps, "stream", nil)
	if p0.Err == "" {
		ln["tp"] = whereTree(p0.P)
		if pf1, e := format(ps); e == "" {
			p1 := mkPipe(pf1, "stream", nil)
			ln["pf"] = p1.Err == "" && p1.Dot == p0.Dot && p1.Props == p0.Props
		}
	}
	return o
}

// whereTree: the canonical tree (no flags) of the lambda the WhereNode of the pipeline holds.
func whereTree(p *pipeline.Pipeline) T {
	out := nilTree
	_ = p.Walk(func(n pipeline.Node) error {
		if w, ok := n.(*pipeline.WhereNode); ok && w.Lambda != nil {
			out = Canon(w.Lambda.Expression, false, false)
		}
		return nil
	})
	return out
}

func hasLeaf(t T, kind, val string) bool {
	if len(t) == 2 && t[0] == kind && t[1] == val {
		return true
	}
	for _, c := range t[2:] {
		if hasLeaf(c.(T), kind, val) {
			return true
		}
	}
	return false
}

// ---------------------------------------------------------------------------

func parallelEval(items []item, f func(item) *outcome) []*outcome {
	out := make([]*outcome, len(items))
	w := runtime.GOMAXPROCS(0)
	if w > 6 {
		w = 6
	}
	var wg sync.WaitGroup
	ch := make(chan int)
	for i := 0; i < w; i++ {
		wg.Add(1)
		go func() {
			defer wg.Done()
			for k := range ch {
				out[k] = f(items[k])
			}
		}()
	}
	for k := range items {
		ch <- k
	}
	close(ch)
	wg.Wait()
	return out
}
