package c13

// probe.go: `kvh c13probe -out DIR -- stream|batch FILE...` prints every stage of the
// round trips for hand-written scripts (triage tool; not used by the check).

import (
	"fmt"
	"os"
	"strings"

	"kapverif/rt"
)

func init() { rt.Register("c13probe", Probe) }

func Probe(r *rt.Run) error {
	if len(r.Args) < 2 {
		return fmt.Errorf("usage: c13probe -out DIR stream|batch FILE...")
	}
	kind := r.Args[0]
	for _, f := range r.Args[1:] {
		b, err := os.ReadFile(f)
		if err != nil {
			return err
		}
		for _, script := range strings.Split(string(b), "\n====\n") {
			probeOne(kind, script)
		}
	}
	return nil
}

func probeOne(kind, script string) {
	fmt.Printf("################ script (%s):\n%s\n", kind, script)
	n0, e := parse(script)
	if e != "" {
		fmt.Println("parse error:", e)
		return
	}
	fmt.Println("t0 :", S(Canon(n0, true, false)))
	f1, e := format(script)
	fmt.Printf("---- formatted (err=%q):\n%s", e, f1)
	n1, e := parse(f1)
	if e != "" {
		fmt.Println("REPARSE ERROR:", e)
	} else {
		fmt.Println("t1 :", S(Canon(n1, true, false)))
		fmt.Println("Equal:", n0.Equal(n1), " canon equal:", S(Canon(n0, false, false)) == S(Canon(n1, false, false)))
	}
	f2, _ := format(f1)
	f3, _ := format(f2)
	fmt.Println("fmt stable: f2==f1", f2 == f1, " f3==f2", f3 == f2)
	if f2 != f1 {
		fmt.Printf("---- f2:\n%s", f2)
	}
	// AST JSON
	nj, e := astJSON(n0)
	if e != "" {
		fmt.Println("AST JSON error:", e)
	} else {
		fmt.Println("tj :", S(Canon(nj, true, false)))
		fmt.Println("json Equal:", n0.Equal(nj))
		fj, e := astFormat(nj)
		fmt.Printf("---- format of JSON round trip (err=%q):\n%s", e, fj)
	}
	p0 := mkPipe(script, kind, nil)
	if p0.Err != "" {
		fmt.Println("pipeline error (original):", p0.Err)
		return
	}
	if pj := mkPipe(script, kind, nil); pj.Err == "" {
		pj.marshal()
		p0.JSON, p0.JErr = pj.JSON, pj.JErr
	}
	p1 := mkPipe(f1, kind, nil)
	fmt.Printf("pipeline(formatted): err=%q dot= %v props= %v json= %v\n", p1.Err, p0.Dot == p1.Dot, p0.Props == p1.Props, p0.JSON == p1.JSON)
	if p0.Props != p1.Props {
		fmt.Println("  props diff:", firstDiff(p0.Props, p1.Props))
	}
	fmt.Printf("---- props:\n%s", p0.Props)
	fmt.Printf("---- pipeline JSON (err=%q):\n%s\n", p0.JErr, p0.JSON)
	ts, e := toTick(p0.P)
	fmt.Printf("---- pipeline/tick (err=%q):\n%s", e, ts)
	if e == "" {
		p2 := mkPipe(ts, kind, nil)
		fmt.Printf("pipeline(ptick): err=%q dot= %v props= %v\n", p2.Err, p0.Dot == p2.Dot, p0.Props == p2.Props)
		if p2.Err == "" && p0.Props != p2.Props {
			fmt.Println("  props diff:", firstDiff(p0.Props, p2.Props))
		}
		if p2.Err == "" && p0.Dot != p2.Dot {
			fmt.Println("  dot diff:", firstDiff(p0.Dot, p2.Dot))
		}
	}
	if os.Getenv("C13_REPS") != "" && p0.JErr == "" {
		// how many different pipelines does the SAME JSON unmarshal to?
		cnt := map[string]int{}
		for i := 0; i < 300; i++ {
			p3 := fromJSON(p0.JSON)
			k := "same"
			if p3.Err != "" {
				k = "error: " + p3.Err
			} else if p3.Iso != p0.Iso {
				k = "differs: " + strings.Join(DiffPaths(p0.D, p3.D), " ")
			}
			cnt[k]++
		}
		fmt.Println("300 x Unmarshal of the same JSON:", cnt)
	}
	if p0.JErr == "" {
		p3 := fromJSON(p0.JSON)
		fmt.Printf("pipeline(JSON): err=%q dot= %v props= %v json= %v\n", p3.Err, p0.Dot == p3.Dot, p0.Props == p3.Props, p0.JSON == p3.JSON)
		if p3.Err == "" && p0.Props != p3.Props {
			fmt.Println("  props diff:", firstDiff(p0.Props, p3.Props))
			if strings.HasPrefix(p3.Props, "PANIC") {
				fmt.Println(p3.Props)
			}
		}
		if p3.Err == "" {
			ts3, e := toTick(p3.P)
			fmt.Printf("---- pipeline/tick of JSON pipeline (err=%q):\n%s", e, ts3)
		}
	}
}
