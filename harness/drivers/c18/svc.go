package c18

// svc.go: record and replay through the real replay service (services/replay/service.go), end to end:
//   stream: POST /recordings/stream for a task, points written through TaskMaster.WritePoints (the ingest path the
//           recording forks from), a terminator point beyond `stop`, then POST /replays (fast clock) in both clock
//           modes; what the task receives is what its |log() sink shows in the replay's isolated TaskMaster.
//   batch:  the archive of a recording is placed in the service's directory (file data source, as a finished
//           recording looks on disk), picked up by Service.Open, and replayed through POST /replays into a real
//           batch task with as many query nodes as the archive has sources.
// The fast clock's zero is time.Now(): live-time outputs are rebased so that the first delivered item sits at model
// time `svcZero`; the trace specification then demands the one constant shift for every other timestamp.

import (
	"bytes"
	"encoding/json"
	"fmt"
	"net/http"
	"net/http/httptest"
	"os"
	"path/filepath"
	"regexp"
	"sort"
	"strconv"
	"sync"
	"time"

	"github.com/influxdata/kapacitor"
	"github.com/influxdata/kapacitor/edge"
	"github.com/influxdata/kapacitor/keyvalue"
	"github.com/influxdata/kapacitor/models"
	"github.com/influxdata/kapacitor/server/vars"
	"github.com/influxdata/kapacitor/services/httpd"
	"github.com/influxdata/kapacitor/services/replay"

	"kapverif/rt"
)

const svcZero = 5000

type svcDiag struct{}

func (svcDiag) Error(msg string, err error, ctx ...keyvalue.T) {}
func (svcDiag) Debug(msg string, ctx ...keyvalue.T)            {}

type taskLoader struct {
	mu sync.Mutex
	m  map[string]*kapacitor.Task
}

func (l *taskLoader) Load(id string) (*kapacitor.Task, error) {
	l.mu.Lock()
	defer l.mu.Unlock()
	if t, ok := l.m[id]; ok {
		return t, nil
	}
	return nil, fmt.Errorf("unknown task %q", id)
}

type tmLookup struct {
	mu sync.Mutex
	m  map[string]*kapacitor.TaskMaster
}

func (l *tmLookup) Get(id string) *kapacitor.TaskMaster {
	l.mu.Lock()
	defer l.mu.Unlock()
	return l.m[id]
}
func (l *tmLookup) Set(tm *kapacitor.TaskMaster) {
	l.mu.Lock()
	l.m[tm.ID()] = tm
	l.mu.Unlock()
}
func (l *tmLookup) Delete(tm *kapacitor.TaskMaster) {
	l.mu.Lock()
	delete(l.m, tm.ID())
	l.mu.Unlock()
}

type svcWorld struct {
	env    *rt.Env
	svc    *replay.Service
	dir    string
	tasks  *taskLoader
	routes map[string]http.HandlerFunc
	sinkOf map[string][]int // batch task -> sink number fed by source j
}

func openSvc(dir string) *svcWorld {
	env, err := rt.NewEnv(rt.EnvOpts{})
	if err != nil {
		rt.Fatalf("c18svc: env: %v", err)
	}
	w := &svcWorld{env: env, dir: dir, tasks: &taskLoader{m: map[string]*kapacitor.Task{}}, routes: map[string]http.HandlerFunc{}}
	s := replay.NewService(replay.Config{Dir: dir}, svcDiag{})
	s.StorageService = env.Storage
	s.TaskStore = w.tasks
	s.HTTPDService = env.HTTPD
	s.TaskMasterLookup = &tmLookup{m: map[string]*kapacitor.TaskMaster{}}
	s.TaskMaster = env.TM
	if err := s.Open(); err != nil {
		rt.Fatalf("c18svc: replay service open: %v", err)
	}
	w.svc = s
	for _, r := range env.HTTPD.Routes {
		if hf, ok := r.HandlerFunc.(func(http.ResponseWriter, *http.Request)); ok {
			w.routes[r.Method+" "+r.Pattern] = hf
		}
	}
	return w
}

func (w *svcWorld) close() {
	w.svc.Close()
	w.env.Close()
}

func (w *svcWorld) call(method, pattern, u string, body any) (int, map[string]any) {
	h, ok := w.routes[method+" "+pattern]
	if !ok {
		rt.Fatalf("c18svc: no route %s %s registered by the replay service", method, pattern)
	}
	var rd *bytes.Reader
	if body != nil {
		b, _ := json.Marshal(body)
		rd = bytes.NewReader(b)
	} else {
		rd = bytes.NewReader(nil)
	}
	req := httptest.NewRequest(method, u, rd)
	rec := httptest.NewRecorder()
	h(rec, req)
	var m map[string]any
	_ = json.Unmarshal(rec.Body.Bytes(), &m)
	return rec.Code, m
}

// await polls GET <kind>/<id> until the object has left the running state.
func (w *svcWorld) await(kind, id string) map[string]any {
	deadline := time.Now().Add(60 * time.Second)
	wait := 50 * time.Microsecond
	for {
		code, m := w.call("GET", "/"+kind+"/", httpd.BasePath+"/"+kind+"/"+id, nil)
		if code == http.StatusOK {
			return m
		}
		if code != http.StatusAccepted {
			rt.Fatalf("c18svc: GET %s/%s answered %d %v", kind, id, code, m)
		}
		if time.Now().After(deadline) {
			rt.Fatalf("c18svc: %s %s still running after 60s", kind, id)
		}
		time.Sleep(wait)
		if wait < 5*time.Millisecond {
			wait *= 2
		}
	}
}

// forkReady: the recording's fork edge exists (its statistic is published) - points written from now on reach it.
func forkReady(id string) bool {
	data, err := vars.GetStatsData()
	if err != nil {
		rt.Fatalf("c18svc: GetStatsData: %v", err)
	}
	for _, d := range data {
		if d.Name == "edges" && d.Tags["task"] == id {
			return true
		}
	}
	return false
}

// rebase: model time of an observed time; in live mode relative to the first delivered item.
type rebaser struct {
	recTime bool
	have    bool
	first   time.Time
}

func (rb *rebaser) k(t time.Time) int {
	if rb.recTime {
		return tk(t)
	}
	if !rb.have {
		rb.have, rb.first = true, t
	}
	d := t.Sub(rb.first)
	if d%curTM.Unit != 0 {
		return -99999
	}
	return svcZero + int(d/curTM.Unit)
}

var svcStreamTask = "stream\n    |from()\n    |log()\n        .prefix('sout')\n"

func svcBatchTask(n int) string {
	s := ""
	for i := 0; i < n; i++ {
		s += fmt.Sprintf("batch\n    |query('SELECT f FROM db.rp.m%d')\n        .period(10s)\n        .every(10s)\n    |log()\n        .prefix('bout%d')\n", i, i)
	}
	return s
}

func (w *svcWorld) defineTask(id, src string, tt kapacitor.TaskType, dbrps []kapacitor.DBRP) {
	t, err := w.env.TM.NewTask(id, src, tt, dbrps, 0, nil)
	if err != nil {
		rt.Fatalf("c18svc: task %s: %v", id, err)
	}
	w.tasks.mu.Lock()
	w.tasks.m[id] = t
	w.tasks.mu.Unlock()
	if tt != kapacitor.BatchTask {
		return
	}
	// Source j of a batch recording is what the service records for the j-th entry of ExecutingTask.BatchQueries
	// (startRecordBatch), and collector j of a replay feeds the same j-th query node: find out which query node
	// (= which sink of the task) that is, the way the service does, instead of assuming script order.
	et, err := kapacitor.NewExecutingTask(w.env.TM, t)
	if err != nil {
		rt.Fatalf("c18svc: executing task %s: %v", id, err)
	}
	bqs, err := et.BatchQueries(curTM.T(0), curTM.T(10))
	if err != nil {
		rt.Fatalf("c18svc: batch queries of %s: %v", id, err)
	}
	perm := make([]int, len(bqs))
	for j, bq := range bqs {
		if len(bq.Queries) == 0 {
			rt.Fatalf("c18svc: task %s source %d has no query", id, j)
		}
		m := queryMeasurement.FindStringSubmatch(bq.Queries[0].String())
		if m == nil {
			rt.Fatalf("c18svc: cannot find the measurement in %q", bq.Queries[0].String())
		}
		perm[j], _ = strconv.Atoi(m[1])
	}
	if w.sinkOf == nil {
		w.sinkOf = map[string][]int{}
	}
	w.sinkOf[id] = perm
}

var queryMeasurement = regexp.MustCompile(`\bm(\d+)\b`)

// streamThroughService: record items through POST /recordings/stream, then replay in the given mode.
// One recording, both modes.
func (w *svcWorld) streamThroughService(n int, items []sItem) (outs map[bool][]any, errs map[bool]string, recErr string) {
	recID := fmt.Sprintf("rec%d", n)
	maxT := items[0].t
	for _, it := range items {
		if it.t > maxT {
			maxT = it.t
		}
	}
	code, m := w.call("POST", "/recordings/stream", httpd.BasePath+"/recordings/stream", map[string]any{"id": recID, "task": "st", "stop": curTM.T(maxT)})
	if code != http.StatusCreated {
		rt.Fatalf("c18svc: record stream answered %d %v", code, m)
	}
	deadline := time.Now().Add(30 * time.Second)
	for wait := 20 * time.Microsecond; !forkReady(recID); {
		if time.Now().After(deadline) {
			rt.Fatalf("c18svc: recording %s never subscribed to the stream", recID)
		}
		time.Sleep(wait)
		if wait < 2*time.Millisecond {
			wait *= 2
		}
	}
	for _, it := range items {
		p := rt.MustPoint(it.name, it.tags, it.fields, curTM.T(it.t))
		if err := w.env.Write(it.db, it.rp, p); err != nil {
			rt.Fatalf("c18svc: write: %v", err)
		}
	}
	// the recording ends with the first point beyond `stop`
	if err := w.env.Write("db", "rp", rt.MustPoint("terminator", nil, map[string]any{"x": int64(1)}, curTM.T(maxT+100))); err != nil {
		rt.Fatalf("c18svc: write: %v", err)
	}
	rm := w.await("recordings", recID)
	if e, _ := rm["error"].(string); e != "" || rm["status"] != "finished" {
		recErr = fmt.Sprintf("recording %v: %v", rm["status"], e)
	}
	outs, errs = map[bool][]any{}, map[bool]string{}
	for _, recTime := range []bool{true, false} {
		w.env.Diag.Clear()
		rpID := fmt.Sprintf("rp%d_%v", n, recTime)
		code, m := w.call("POST", "/replays", httpd.BasePath+"/replays", map[string]any{"id": rpID, "task": "st", "recording": recID, "clock": "fast", "recording-time": recTime})
		if code != http.StatusCreated {
			rt.Fatalf("c18svc: create replay answered %d %v", code, m)
		}
		pm := w.await("replays", rpID)
		if e, _ := pm["error"].(string); e != "" || pm["status"] != "finished" {
			errs[recTime] = "error"
		}
		rb := &rebaser{recTime: recTime}
		out := []any{}
		for _, it := range w.env.Diag.SinkItems("sout") {
			if it.Point == nil {
				continue
			}
			p := it.Point
			out = append(out, rt.M{"db": p.Database(), "rp": p.RetentionPolicy(), "name": p.Name(), "tags": encTags(p.Tags()), "fields": encFields(p.Fields()), "t": rb.k(p.Time())})
		}
		outs[recTime] = out
		w.call("DELETE", "/replays/", httpd.BasePath+"/replays/"+rpID, nil)
	}
	w.call("DELETE", "/recordings/", httpd.BasePath+"/recordings/"+recID, nil)
	return
}

// writeBatchArchive: the on-disk form of a finished batch recording with one source per element.
func writeBatchArchive(path string, sources [][]bItem) {
	ds := replay.VerifFileSource(path)
	arch, err := ds.BatchArchiver()
	if err != nil {
		rt.Fatalf("c18svc: BatchArchiver: %v", err)
	}
	for i, items := range sources {
		wr, err := arch.Archive(i)
		if err != nil {
			rt.Fatalf("c18svc: Archive(%d): %v", i, err)
		}
		for _, it := range items {
			pts := make([]edge.BatchPointMessage, len(it.pts))
			for k, p := range it.pts {
				pts[k] = edge.NewBatchPointMessage(models.Fields(p.fields), models.Tags(p.tags), curTM.T(p.t))
			}
			begin := edge.NewBeginBatchMessage(it.name, models.Tags(it.gtags), it.byName, curTM.T(it.tmax), len(pts))
			begin.SetDimensions(models.Dimensions{ByName: it.byName, TagNames: it.dims})
			if err := kapacitor.WriteBatchForRecording(wr, edge.NewBufferedBatchMessage(begin, pts, edge.NewEndBatchMessage())); err != nil {
				rt.Fatalf("c18svc: WriteBatchForRecording: %v", err)
			}
		}
	}
	if err := arch.Close(); err != nil {
		rt.Fatalf("c18svc: archive close: %v", err)
	}
}

type batchCase struct {
	id      string
	sources [][]bItem
}

// batchThroughService: replay the recording (already known to the service) into the batch task with len(sources) queries.
func (w *svcWorld) batchThroughService(c batchCase, recTime bool) (outs [][]any, errStr string) {
	w.env.Diag.Clear()
	rpID := fmt.Sprintf("rp_%s_%v", c.id, recTime)
	task := fmt.Sprintf("bt%d", len(c.sources))
	sink := func(j int) string { return fmt.Sprintf("bout%d", w.sinkOf[task][j]) }
	code, m := w.call("POST", "/replays", httpd.BasePath+"/replays", map[string]any{"id": rpID, "task": task, "recording": c.id, "clock": "fast", "recording-time": recTime})
	if code != http.StatusCreated {
		rt.Fatalf("c18svc: create replay answered %d %v", code, m)
	}
	pm := w.await("replays", rpID)
	if e, _ := pm["error"].(string); e != "" || pm["status"] != "finished" {
		errStr = "error"
	}
	// one constant shift for the whole replay: rebase on the earliest delivered point over all sources
	var first time.Time
	have := false
	if !recTime {
		for i := range c.sources {
			for _, it := range w.env.Diag.SinkItems(sink(i)) {
				if it.Batch == nil {
					continue
				}
				for _, bp := range it.Batch.Points() {
					if !have || bp.Time().Before(first) {
						have, first = true, bp.Time()
					}
				}
			}
		}
	}
	kk := func(t time.Time, minIn int) int {
		if recTime {
			return tk(t)
		}
		d := t.Sub(first)
		if !have || d%curTM.Unit != 0 {
			return -99999
		}
		return svcZero + int(d/curTM.Unit)
	}
	for i := range c.sources {
		o := []any{}
		for _, it := range w.env.Diag.SinkItems(sink(i)) {
			if it.Batch == nil {
				continue
			}
			b := it.Batch
			pts := []any{}
			for _, bp := range b.Points() {
				pts = append(pts, rt.M{"tags": encTags(bp.Tags()), "fields": encFields(bp.Fields()), "t": kk(bp.Time(), 0)})
			}
			dims := []any{}
			for _, d := range b.Dimensions().TagNames {
				dims = append(dims, d)
			}
			o = append(o, rt.M{"name": b.Name(), "gtags": encTags(b.Tags()), "byName": b.Dimensions().ByName, "dims": dims, "group": string(b.GroupID()), "tmax": kk(b.Time(), 0), "points": pts})
		}
		outs = append(outs, o)
	}
	w.call("DELETE", "/replays/", httpd.BasePath+"/replays/"+rpID, nil)
	return
}

func init() { rt.Register("c18svc", RunService) }

// RunService: the value classes and sequences of c18, end to end through the replay service.
func RunService(r *rt.Run) error {
	t := r.NewTrace("svc")
	dir, err := os.MkdirTemp("", "kvh-c18svc-")
	if err != nil {
		return err
	}
	defer os.RemoveAll(dir)

	// ---- batch cases are laid down before the service opens (it adopts the files it finds as recordings)
	var bcases []batchCase
	addB := func(id string, sources ...[]bItem) {
		bcases = append(bcases, batchCase{id: id, sources: sources})
		writeBatchArchive(filepath.Join(dir, id+".brpl"), sources)
	}
	for vi, vc := range vclasses {
		for gi, g := range []bItem{
			{name: "m0", gtags: map[string]string{}, tmax: 1010},
			{name: "m0", gtags: map[string]string{"host": "a b"}, dims: []string{"host"}, byName: true, tmax: 1009},
		} {
			b1 := g
			b1.pts = []sItem{{tags: g.gtags, fields: map[string]any{"f": vc.v}, t: 1001}, {tags: g.gtags, fields: map[string]any{"f": vc.v, "g": int64(2)}, t: 1009}}
			b2 := g
			b2.tmax = 1020
			b2.pts = []sItem{{tags: g.gtags, fields: map[string]any{"f": vc.v}, t: 1015}}
			addB(fmt.Sprintf("bv%d-%d", vi, gi), []bItem{b1, b2})
		}
	}
	g1 := map[string]string{"host": "a"}
	g2 := map[string]string{"host": "b"}
	addB("bempty", []bItem{
		{name: "m0", gtags: g1, dims: []string{"host"}, tmax: 1010, pts: []sItem{{tags: g1, fields: map[string]any{"f": int64(1)}, t: 1003}}},
		{name: "m0", gtags: g2, dims: []string{"host"}, tmax: 1010, pts: []sItem{}},
		{name: "m0", gtags: g2, dims: []string{"host"}, tmax: 1020, pts: []sItem{{tags: g2, fields: map[string]any{"f": int64(2)}, t: 1012}, {tags: g2, fields: map[string]any{"f": int64(3)}, t: 1020}}},
	})
	ns := []int{2, 3}
	if r.Thorough() {
		ns = append(ns, 11, 12)
	}
	for _, n := range ns {
		sources := make([][]bItem, n)
		for i := range sources {
			g := map[string]string{"src": fmt.Sprint(i)}
			sources[i] = []bItem{{name: fmt.Sprintf("m%d", i), gtags: g, dims: []string{"src"}, tmax: 1010,
				pts: []sItem{{tags: g, fields: map[string]any{"f": float64(i) + 0.5}, t: 1001 + i%2}, {tags: g, fields: map[string]any{"f": 2.5}, t: 1004 + i%3}}}}
		}
		addB(fmt.Sprintf("bsrc%d", n), sources...)
		// and the same with one source that recorded nothing
		withEmpty := append([][]bItem(nil), sources...)
		withEmpty[n/2] = []bItem{}
		addB(fmt.Sprintf("bsrcE%d", n), withEmpty...)
	}
	nRandB := 10
	if r.Thorough() {
		nRandB = 300
	}
	for i := 0; i < nRandB; i++ {
		var items []bItem
		tm := 1000 + r.Rand.Intn(20)
		g := tagsets[1+r.Rand.Intn(len(tagsets)-1)]
		dims := []string{}
		for k := range g {
			dims = append(dims, k)
		}
		sort.Strings(dims)
		for nb := 1 + r.Rand.Intn(3); nb > 0; nb-- {
			b := bItem{name: []string{"m0", "cpu load"}[r.Rand.Intn(2)], gtags: g, dims: dims, byName: r.Rand.Intn(2) == 0}
			for np := 1 + r.Rand.Intn(3); np > 0; np-- {
				tm += r.Rand.Intn(4)
				f := map[string]any{}
				for j := 1 + r.Rand.Intn(2); j > 0; j-- {
					f[fmt.Sprintf("f%d", j)] = vclasses[r.Rand.Intn(len(vclasses))].v
				}
				b.pts = append(b.pts, sItem{tags: g, fields: f, t: tm})
			}
			tm += r.Rand.Intn(3)
			b.tmax = tm
			items = append(items, b)
		}
		addB(fmt.Sprintf("brnd%d", i), items)
	}

	w := openSvc(dir)
	defer w.close()
	dbrps := []kapacitor.DBRP{{Database: "db", RetentionPolicy: "rp"}, {Database: "db2", RetentionPolicy: "rp2"}, {Database: "db2", RetentionPolicy: "rp"}}
	w.defineTask("st", svcStreamTask, kapacitor.StreamTask, dbrps)
	for _, n := range []int{1, 2, 3, 11, 12} {
		w.defineTask(fmt.Sprintf("bt%d", n), svcBatchTask(n), kapacitor.BatchTask, dbrps)
	}

	// ---- stream
	nS := 0
	emitS := func(items []sItem, key string) {
		nS++
		outs, errs, recErr := w.streamThroughService(nS, items)
		for _, rec := range []bool{true, false} {
			t.Reset(nil)
			t.Event("RecStream", rt.M{"recTime": rec, "zero": svcZero, "items": encSItems(items), "recErr": recErr, "via": "service"})
			t.Event("OutStream", rt.M{"items": outs[rec], "err": errs[rec], "closed": 1})
		}
		t.Distinct(key)
	}
	for _, vc := range vclasses {
		for ti, ts := range tagsets {
			if !r.Thorough() && ti%2 == 1 {
				continue
			}
			emitS([]sItem{
				{"db", "rp", "m", ts, map[string]any{"f": vc.v}, 1000},
				{"db2", "rp2", "m2", ts, map[string]any{"f": vc.v, "g": int64(1)}, 1009},
			}, fmt.Sprintf("svc/s/%s/%d", vc.name, ti))
		}
	}
	nRand := 20
	if r.Thorough() {
		nRand = 1500
	}
	for i := 0; i < nRand; i++ {
		var items []sItem
		tm := 1000 + r.Rand.Intn(50)
		for k := 1 + r.Rand.Intn(6); k > 0; k-- {
			tm += r.Rand.Intn(4)
			f := map[string]any{}
			for j := 1 + r.Rand.Intn(3); j > 0; j-- {
				f[fmt.Sprintf("f%d", j)] = vclasses[r.Rand.Intn(len(vclasses))].v
			}
			items = append(items, sItem{[]string{"db", "db2"}[r.Rand.Intn(2)], "rp", []string{"m", "cpu load"}[r.Rand.Intn(2)], tagsets[r.Rand.Intn(len(tagsets))], f, tm})
		}
		emitS(items, fmt.Sprintf("svc/sr/%d", i))
	}
	// out of order within the recording window
	emitS([]sItem{
		{"db", "rp", "m", map[string]string{"host": "a"}, map[string]any{"f": int64(1)}, 1005},
		{"db", "rp", "m", map[string]string{"host": "a"}, map[string]any{"f": int64(2)}, 1001},
		{"db", "rp", "m", map[string]string{"host": "a"}, map[string]any{"f": int64(3)}, 1009},
	}, "svc/so")

	// ---- batch
	for _, c := range bcases {
		for _, rec := range []bool{true, false} {
			outs, errS := w.batchThroughService(c, rec)
			// the constant shift of a live-time batch replay is fixed by the first point of the FIRST source
			for i := range c.sources {
				t.Reset(nil)
				t.Event("RecBatch", rt.M{"recTime": rec, "zero": svcZero, "items": encBItems(c.sources[i]), "source": i, "of": len(c.sources), "via": "service",
					"base": svcBase(c.sources), "own": svcBase(c.sources[i : i+1])})
				t.Event("OutBatch", rt.M{"items": outs[i], "err": errS, "closed": 1})
			}
		}
		t.Distinct("svc/b/" + c.id)
	}
	r.Extra["service_stream_recordings"] = nS
	r.Extra["service_batch_recordings"] = len(bcases)
	r.Finish("the value classes and sequences of c18 recorded and replayed through the real replay service: stream recordings made by POST /recordings/stream from points written through TaskMaster.WritePoints, batch recordings adopted from the service directory, both replayed by POST /replays (fast clock, both clock modes) into real tasks in the replay's isolated TaskMaster; observed at the tasks' log sinks", false)
	return nil
}

// svcBase: earliest recorded point time over all sources (the item the rebased live-time output puts at svcZero).
func svcBase(sources [][]bItem) int {
	have, min := false, 0
	for _, s := range sources {
		for _, b := range s {
			for _, p := range b.pts {
				if !have || p.t < min {
					have, min = true, p.t
				}
			}
		}
	}
	return min
}
