package c18

import (
	"fmt"
	"io"
	"os"
	"path/filepath"
	"time"

	"github.com/influxdata/kapacitor"
	"github.com/influxdata/kapacitor/edge"
	"github.com/influxdata/kapacitor/models"
	"github.com/influxdata/kapacitor/services/replay"

	"kapverif/rt"
)

// archive layer: the recording goes through the service's file data source
// (gzip stream file; zip archive with one entry per batch source) and is read
// back with StreamReader / BatchReaders, as services/replay does.

func replayStreamArchive(dir string, items []sItem, recTime bool, zero int) (out []any, errStr string, closed int) {
	ds := replay.VerifFileSource(filepath.Join(dir, "s.srpl"))
	w, err := ds.StreamWriter()
	if err != nil {
		rt.Fatalf("c18: StreamWriter: %v", err)
	}
	for _, it := range items {
		p := edge.NewPointMessage(it.name, it.db, it.rp, models.Dimensions{}, models.Fields(it.fields), models.Tags(it.tags), curTM.T(it.t))
		if err := kapacitor.WritePointForRecording(w, p, "n"); err != nil {
			rt.Fatalf("c18: record: %v", err)
		}
	}
	w.Close()
	rd, err := ds.StreamReader()
	if err != nil {
		rt.Fatalf("c18: StreamReader: %v", err)
	}
	col := &streamCol{}
	errC := kapacitor.ReplayStreamFromIO(&fixedClock{curTM.T(zero)}, rd, col, recTime, "n")
	select {
	case err := <-errC:
		if err != nil {
			errStr = "error"
		}
	case <-time.After(60 * time.Second):
		rt.Fatalf("c18: stream replay did not end within 60s")
	}
	deadline := time.Now().Add(30 * time.Second)
	for {
		col.mu.Lock()
		c := col.closed
		col.mu.Unlock()
		if c > 0 || errStr != "" || time.Now().After(deadline) {
			break
		}
		time.Sleep(50 * time.Microsecond)
	}
	col.mu.Lock()
	defer col.mu.Unlock()
	out = []any{}
	for _, p := range col.pts {
		out = append(out, encPoint(p))
	}
	ds.Remove()
	return out, errStr, col.closed
}

// replayBatchArchive records sources[i] as batch source i and replays all of them;
// returns, per collector index, what it was handed.
func replayBatchArchive(dir string, sources [][]bItem, recTime bool, zero int) (outs [][]any, errStr string) {
	ds := replay.VerifFileSource(filepath.Join(dir, "b.brpl"))
	arch, err := ds.BatchArchiver()
	if err != nil {
		rt.Fatalf("c18: BatchArchiver: %v", err)
	}
	for i, items := range sources {
		w, err := arch.Archive(i)
		if err != nil {
			rt.Fatalf("c18: Archive(%d): %v", i, err)
		}
		for _, it := range items {
			pts := make([]edge.BatchPointMessage, len(it.pts))
			for k, p := range it.pts {
				pts[k] = edge.NewBatchPointMessage(models.Fields(p.fields), models.Tags(p.tags), curTM.T(p.t))
			}
			begin := edge.NewBeginBatchMessage(it.name, models.Tags(it.gtags), it.byName, curTM.T(it.tmax), len(pts))
			begin.SetDimensions(models.Dimensions{ByName: it.byName, TagNames: it.dims})
			if err := kapacitor.WriteBatchForRecording(w, edge.NewBufferedBatchMessage(begin, pts, edge.NewEndBatchMessage())); err != nil {
				rt.Fatalf("c18: WriteBatchForRecording: %v", err)
			}
		}
	}
	if err := arch.Close(); err != nil {
		rt.Fatalf("c18: archive close: %v", err)
	}
	readers, err := ds.BatchReaders()
	if err != nil {
		rt.Fatalf("c18: BatchReaders: %v", err)
	}
	cols := make([]*batchCol, len(readers))
	bcs := make([]kapacitor.BatchCollector, len(readers))
	for i := range cols {
		cols[i] = &batchCol{}
		bcs[i] = cols[i]
	}
	rcs := make([]io.ReadCloser, len(readers))
	copy(rcs, readers)
	errC := kapacitor.ReplayBatchFromIO(&fixedClock{curTM.T(zero)}, rcs, bcs, recTime)
	select {
	case err := <-errC:
		if err != nil {
			errStr = "error"
		}
	case <-time.After(60 * time.Second):
		rt.Fatalf("c18: batch replay did not end within 60s")
	}
	for _, c := range cols {
		c.mu.Lock()
		o := []any{}
		for _, b := range c.bs {
			o = append(o, encBatch(b))
		}
		c.mu.Unlock()
		outs = append(outs, o)
	}
	ds.Remove()
	return outs, errStr
}

func runArchive(r *rt.Run, t *rt.Trace) {
	dir, err := os.MkdirTemp("", "kvh-c18-")
	if err != nil {
		rt.Fatalf("c18: %v", err)
	}
	defer os.RemoveAll(dir)
	// stream through the gzip file
	items := []sItem{
		{"db", "rp", "m", map[string]string{"host": "a b"}, map[string]any{"f": int64(9007199254740993), "s": `a"b,c d`}, 1000},
		{"db2", "rp2", "cpu load", map[string]string{}, map[string]any{"f": 1.5, "b": true}, 1003},
		{"db", "rp", "m", map[string]string{"h=t": "v=w"}, map[string]any{"s": "é☃"}, 1003},
	}
	for _, rec := range []bool{true, false} {
		out, errS, closed := replayStreamArchive(dir, items, rec, 4000)
		t.Reset(nil)
		t.Event("RecStream", rt.M{"recTime": rec, "zero": 4000, "items": encSItems(items), "recErr": ""})
		t.Event("OutStream", rt.M{"items": out, "err": errS, "closed": closed})
	}
	t.Distinct("archive/stream")
	// batch archives with n sources: source i must come back at collector i
	ns := []int{1, 2, 3, 11, 12}
	if r.Thorough() {
		ns = append(ns, 10, 21, 25, 101)
	}
	for _, n := range ns {
		sources := make([][]bItem, n)
		for i := range sources {
			g := map[string]string{"src": fmt.Sprint(i)}
			sources[i] = []bItem{{name: fmt.Sprintf("m%d", i), gtags: g, dims: []string{"src"}, tmax: 1010,
				pts: []sItem{{tags: g, fields: map[string]any{"f": float64(i) + 0.5}, t: 1001}, {tags: g, fields: map[string]any{"f": 2.5}, t: 1004 + i%3}}}}
		}
		// a source that recorded nothing (a query that returned no data in the window) keeps its place
		if n >= 2 {
			sources[n/2] = []bItem{}
		}
		if n >= 11 {
			sources[0] = []bItem{}
		}
		for _, rec := range []bool{true, false} {
			outs, errS := replayBatchArchive(dir, sources, rec, 4000)
			if len(outs) != n {
				// a wrong number of readers is itself a deviation: log what we can
				for len(outs) < n {
					outs = append(outs, []any{})
				}
			}
			for i := 0; i < n; i++ {
				t.Reset(nil)
				t.Event("RecBatch", rt.M{"recTime": rec, "zero": 4000, "items": encBItems(sources[i]), "source": i, "of": n})
				t.Event("OutBatch", rt.M{"items": outs[i], "err": errS, "closed": 1})
			}
		}
		t.Distinct(fmt.Sprintf("archive/batch/%d", n))
	}
}
