package c18

// chan.go: the replay engines fed from channels (ReplayStreamFromChan / ReplayBatchFromChan), the path of the live
// replays of services/replay (doLiveBatchReplay, doLiveQueryReplay): no recording file in between, so empty batches
// and integer fields arrive as they are, and several batch sources run side by side (ReplayProc.tla).

import (
	"time"

	"github.com/influxdata/kapacitor"
	"github.com/influxdata/kapacitor/edge"
	"github.com/influxdata/kapacitor/models"

	"kapverif/rt"
)

func mkBatch(it bItem) edge.BufferedBatchMessage {
	pts := make([]edge.BatchPointMessage, len(it.pts))
	for i, p := range it.pts {
		pts[i] = edge.NewBatchPointMessage(models.Fields(p.fields), models.Tags(p.tags), curTM.T(p.t))
	}
	begin := edge.NewBeginBatchMessage(it.name, models.Tags(it.gtags), it.byName, curTM.T(it.tmax), len(pts))
	begin.SetDimensions(models.Dimensions{ByName: it.byName, TagNames: it.dims})
	return edge.NewBufferedBatchMessage(begin, pts, edge.NewEndBatchMessage())
}

// replayBatchChan: sources[i] is sent on channel i; returns what collector i was handed.
func replayBatchChan(sources [][]bItem, recTime bool, zero int) (outs [][]any, errStr string, closed []int) {
	chans := make([]<-chan edge.BufferedBatchMessage, len(sources))
	cols := make([]*batchCol, len(sources))
	bcs := make([]kapacitor.BatchCollector, len(sources))
	for i, items := range sources {
		ch := make(chan edge.BufferedBatchMessage)
		chans[i] = ch
		cols[i] = &batchCol{}
		bcs[i] = cols[i]
		go func(items []bItem) {
			for _, it := range items {
				ch <- mkBatch(it)
			}
			close(ch)
		}(items)
	}
	errC := kapacitor.ReplayBatchFromChan(&fixedClock{curTM.T(zero)}, chans, bcs, recTime)
	select {
	case err := <-errC:
		if err != nil {
			errStr = "error"
		}
	case <-time.After(60 * time.Second):
		rt.Fatalf("c18: batch replay from channels did not end within 60s")
	}
	for _, c := range cols {
		c.mu.Lock()
		o := []any{}
		for _, b := range c.bs {
			o = append(o, encBatch(b))
		}
		closed = append(closed, c.closed)
		c.mu.Unlock()
		outs = append(outs, o)
	}
	return
}

func replayStreamChan(items []sItem, recTime bool, zero int) (out []any, errStr string, closed int) {
	ch := make(chan edge.PointMessage)
	go func() {
		for _, it := range items {
			ch <- edge.NewPointMessage(it.name, it.db, it.rp, models.Dimensions{}, models.Fields(it.fields), models.Tags(it.tags), curTM.T(it.t))
		}
		close(ch)
	}()
	col := &streamCol{}
	errC := kapacitor.ReplayStreamFromChan(&fixedClock{curTM.T(zero)}, ch, col, recTime)
	select {
	case err := <-errC:
		if err != nil {
			errStr = "error"
		}
	case <-time.After(60 * time.Second):
		rt.Fatalf("c18: stream replay from a channel did not end within 60s")
	}
	col.mu.Lock()
	defer col.mu.Unlock()
	out = []any{}
	for _, p := range col.pts {
		out = append(out, encPoint(p))
	}
	return out, errStr, col.closed
}

func runChan(r *rt.Run, t *rt.Trace) {
	zeros := []int{0, 4000, -50}
	// stream: every value class (nothing is lost without a file in between - newline strings included)
	for _, vc := range vclasses {
		items := []sItem{
			{"db", "rp", "m", tagsets[2], map[string]any{"f": vc.v}, 1000},
			{"db2", "rp2", "m2", tagsets[0], map[string]any{"f": vc.v, "g": int64(1)}, 1009},
		}
		for _, rec := range []bool{true, false} {
			for _, z := range zeros {
				out, errS, closed := replayStreamChan(items, rec, z)
				t.Reset(nil)
				t.Event("RecStream", rt.M{"recTime": rec, "zero": z, "items": encSItems(items), "recErr": "", "via": "chan"})
				t.Event("OutStream", rt.M{"items": out, "err": errS, "closed": closed})
			}
		}
		t.Distinct("chan/s/" + vc.name)
	}
	// batch: 1..3 sources, empty batches at every position, first points equal or different
	g := func(i int) map[string]string { return map[string]string{"src": string(rune('a' + i))} }
	mk := func(i, first int, shape string) []bItem {
		gt := g(i)
		full := func(t0, tmax int) bItem {
			return bItem{name: "m", gtags: gt, dims: []string{"src"}, tmax: tmax, pts: []sItem{{tags: gt, fields: map[string]any{"f": int64(9007199254740993), "s": "a\nb"}, t: t0}, {tags: gt, fields: map[string]any{"f": 1.5}, t: t0 + 3}}}
		}
		empty := func(tmax int) bItem {
			return bItem{name: "m", gtags: gt, dims: []string{"src"}, tmax: tmax, pts: []sItem{}}
		}
		var out []bItem
		tm := first
		for _, c := range shape {
			switch c {
			case 'f':
				out = append(out, full(tm, tm+5))
			case 'e':
				out = append(out, empty(tm+5))
			}
			tm += 10
		}
		return out
	}
	shapes := []string{"f", "ff", "ef", "fe", "fef", "e", "ee", ""}
	if !r.Thorough() {
		shapes = []string{"ff", "ef", "fe", "e", ""}
	}
	for _, n := range []int{1, 2, 3} {
		for _, sh := range shapes {
			for _, sh2 := range shapes {
				if n == 1 && sh2 != shapes[0] {
					continue
				}
				for _, stagger := range []int{0, 2} {
					if n == 1 && stagger != 0 {
						continue
					}
					sources := make([][]bItem, n)
					for i := range sources {
						s := sh
						if i > 0 {
							s = sh2
						}
						sources[i] = mk(i, 1000+i*stagger, s)
					}
					for _, rec := range []bool{true, false} {
						for _, z := range zeros[:2] {
							outs, errS, closed := replayBatchChan(sources, rec, z)
							for i := range sources {
								t.Reset(nil)
								t.Event("RecBatch", rt.M{"recTime": rec, "zero": z, "items": encBItems(sources[i]), "source": i, "of": n, "via": "chan",
									"base": svcBase(sources), "own": svcBase(sources[i : i+1])})
								t.Event("OutBatch", rt.M{"items": outs[i], "err": errS, "closed": closed[i]})
							}
						}
					}
					t.Distinct("chan/b/" + sh + "/" + sh2)
				}
			}
		}
	}
}
