// Package c18: replaying a recording reproduces the recorded data (DESIGN.md C18,
// spec/Replay).  Real WritePointForRecording/WriteBatchForRecording -> bytes ->
// ReplayStreamFromIO/ReplayBatchFromIO into recording collectors, both clock modes.
package c18

import (
	"bytes"
	"fmt"
	"io"
	"sort"
	"strconv"
	"strings"
	"sync"
	"time"

	"github.com/influxdata/kapacitor"
	"github.com/influxdata/kapacitor/edge"
	"github.com/influxdata/kapacitor/models"

	"kapverif/rt"
)

func init() { rt.Register("c18", Run) }

// fixedClock: zero is chosen by the driver; Until never waits (data time only).
type fixedClock struct{ zero time.Time }

func (c *fixedClock) Zero() time.Time   { return c.zero }
func (c *fixedClock) Set(t time.Time)   {}
func (c *fixedClock) Until(t time.Time) {}

type streamCol struct {
	mu     sync.Mutex
	pts    []edge.PointMessage
	closed int
}

func (c *streamCol) CollectPoint(p edge.PointMessage) error {
	c.mu.Lock()
	c.pts = append(c.pts, p)
	c.mu.Unlock()
	return nil
}
func (c *streamCol) Close() error { c.mu.Lock(); c.closed++; c.mu.Unlock(); return nil }

type batchCol struct {
	mu     sync.Mutex
	bs     []edge.BufferedBatchMessage
	closed int
}

func (c *batchCol) CollectBatch(b edge.BufferedBatchMessage) error {
	c.mu.Lock()
	c.bs = append(c.bs, b)
	c.mu.Unlock()
	return nil
}
func (c *batchCol) Close() error { c.mu.Lock(); c.closed++; c.mu.Unlock(); return nil }

// value classes (name -> Go value)
type vclass struct {
	name string
	v    any
}

var vclasses = []vclass{
	{"int", int64(3)}, {"intneg", int64(-7)}, {"intbig", int64(9007199254740993)}, {"intmin", int64(-9223372036854775808)},
	{"float", 1.5}, {"floatint", 2.0}, {"floatneg", -0.25},
	{"true", true}, {"false", false},
	{"str", "abc"}, {"strempty", ""}, {"strquote", `a"b`}, {"strcomma", "a,b"}, {"strspace", "a b"}, {"strnl", "a\nb"}, {"strunicode", "é☃"}, {"strbackslash", `a\b`}, {"streq", "a=b"},
}

var tagsets = []map[string]string{
	{}, {"host": "a"}, {"host": "a b", "dc": "x,y"}, {"h=t": "v=w"}, {"host": "é☃"},
}

// enc: value -> [type, decimal/string form]; strings stay strings, numbers become decimal strings
// (TLC integers are 32 bit; values are compared as text).
func encVal(v any) []any {
	switch x := v.(type) {
	case int64:
		return []any{"int", strconv.FormatInt(x, 10)}
	case float64:
		return []any{"float", strconv.FormatFloat(x, 'g', -1, 64)}
	case bool:
		return []any{"bool", strconv.FormatBool(x)}
	case string:
		return []any{"string", x}
	default:
		return []any{fmt.Sprintf("%T", v), fmt.Sprint(v)}
	}
}

func encFields(f models.Fields) []any {
	keys := make([]string, 0, len(f))
	for k := range f {
		keys = append(keys, k)
	}
	sort.Strings(keys)
	out := []any{}
	for _, k := range keys {
		out = append(out, append([]any{k}, encVal(f[k])...))
	}
	return out
}
func encTags(t models.Tags) []any {
	keys := make([]string, 0, len(t))
	for k := range t {
		keys = append(keys, k)
	}
	sort.Strings(keys)
	out := []any{}
	for _, k := range keys {
		out = append(out, []any{k, t[k]})
	}
	return out
}

// curTM maps model time to real time for the family being run: whole seconds by default, nanoseconds for the
// sub-second family (TLC integers are 32 bit: +-2.1 s around the epoch at nanosecond resolution).
var curTM = rt.DefaultTime

func tk(t time.Time) int {
	k, ok := curTM.KOK(t.UTC())
	if !ok {
		return -99999
	}
	return k
}

func encPoint(p edge.PointMessage) rt.M {
	return rt.M{"db": p.Database(), "rp": p.RetentionPolicy(), "name": p.Name(), "tags": encTags(p.Tags()), "fields": encFields(p.Fields()), "t": tk(p.Time())}
}

func encBatch(b edge.BufferedBatchMessage) rt.M {
	pts := []any{}
	for _, bp := range b.Points() {
		pts = append(pts, rt.M{"tags": encTags(bp.Tags()), "fields": encFields(bp.Fields()), "t": tk(bp.Time())})
	}
	tm := -88888 // zero time
	if !b.Time().IsZero() {
		tm = tk(b.Time())
	}
	dims := []any{}
	for _, d := range b.Dimensions().TagNames {
		dims = append(dims, d)
	}
	return rt.M{"name": b.Name(), "gtags": encTags(b.Tags()), "byName": b.Dimensions().ByName, "dims": dims, "group": string(b.GroupID()), "tmax": tm, "points": pts}
}

type sItem struct {
	db, rp, name string
	tags         map[string]string
	fields       map[string]any
	t            int
}

func replayStream(items []sItem, recTime bool, zero int) (out []any, errStr string, closed int, recErr string) {
	var buf bytes.Buffer
	for _, it := range items {
		p := edge.NewPointMessage(it.name, it.db, it.rp, models.Dimensions{}, models.Fields(it.fields), models.Tags(it.tags), curTM.T(it.t))
		if err := kapacitor.WritePointForRecording(&buf, p, "n"); err != nil {
			recErr = "record:" + err.Error()
		}
	}
	col := &streamCol{}
	errC := kapacitor.ReplayStreamFromIO(&fixedClock{curTM.T(zero)}, io.NopCloser(&buf), col, recTime, "n")
	select {
	case err := <-errC:
		if err != nil {
			errStr = "error"
		}
	case <-time.After(60 * time.Second):
		rt.Fatalf("c18: stream replay did not end within 60s")
	}
	// on a reader error the replay goroutine may still be running: wait for Close
	deadline := time.Now().Add(30 * time.Second)
	for {
		col.mu.Lock()
		c := col.closed
		col.mu.Unlock()
		if c > 0 || errStr != "" || time.Now().After(deadline) {
			break
		}
		time.Sleep(50 * time.Microsecond)
	}
	col.mu.Lock()
	defer col.mu.Unlock()
	out = []any{}
	for _, p := range col.pts {
		out = append(out, encPoint(p))
	}
	return out, errStr, col.closed, recErr
}

type bItem struct {
	name   string
	gtags  map[string]string
	dims   []string
	byName bool
	tmax   int
	pts    []sItem // only tags/fields/t used
}

func replayBatch(items []bItem, recTime bool, zero int) (out []any, errStr string, closed int) {
	var buf bytes.Buffer
	for _, it := range items {
		pts := make([]edge.BatchPointMessage, len(it.pts))
		for i, p := range it.pts {
			pts[i] = edge.NewBatchPointMessage(models.Fields(p.fields), models.Tags(p.tags), curTM.T(p.t))
		}
		begin := edge.NewBeginBatchMessage(it.name, models.Tags(it.gtags), it.byName, curTM.T(it.tmax), len(pts))
		begin.SetDimensions(models.Dimensions{ByName: it.byName, TagNames: it.dims})
		b := edge.NewBufferedBatchMessage(begin, pts, edge.NewEndBatchMessage())
		if err := kapacitor.WriteBatchForRecording(&buf, b); err != nil {
			rt.Fatalf("c18: WriteBatchForRecording: %v", err)
		}
	}
	col := &batchCol{}
	errC := kapacitor.ReplayBatchFromIO(&fixedClock{curTM.T(zero)}, []io.ReadCloser{io.NopCloser(&buf)}, []kapacitor.BatchCollector{col}, recTime)
	select {
	case err := <-errC:
		if err != nil {
			errStr = "error"
		}
	case <-time.After(60 * time.Second):
		rt.Fatalf("c18: batch replay did not end within 60s")
	}
	col.mu.Lock()
	defer col.mu.Unlock()
	out = []any{}
	for _, b := range col.bs {
		out = append(out, encBatch(b))
	}
	return out, errStr, col.closed
}

func encSItems(items []sItem) []any {
	out := []any{}
	for _, it := range items {
		nl := false
		for _, v := range it.fields {
			if sv, ok := v.(string); ok && strings.Contains(sv, "\n") {
				nl = true
			}
		}
		out = append(out, rt.M{"db": it.db, "rp": it.rp, "name": it.name, "tags": encTags(it.tags), "fields": encFields(it.fields), "t": it.t, "nl": nl})
	}
	return out
}
func encBItems(items []bItem) []any {
	out := []any{}
	for _, it := range items {
		pts := []any{}
		for _, p := range it.pts {
			tags := p.tags
			pts = append(pts, rt.M{"tags": encTags(tags), "fields": encFields(p.fields), "t": p.t})
		}
		dims := []any{}
		for _, d := range it.dims {
			dims = append(dims, d)
		}
		out = append(out, rt.M{"name": it.name, "gtags": encTags(it.gtags), "byName": it.byName, "dims": dims, "tmax": it.tmax, "points": pts})
	}
	return out
}

func Run(r *rt.Run) error {
	t := r.NewTrace("trace")
	modes := []bool{true, false}
	zeros := []int{0, 4000, -50}
	// ---- stream: every value class x tag set alone, then sequences
	emitS := func(items []sItem, key string) {
		for _, rec := range modes {
			for _, z := range zeros {
				out, errS, closed, recErr := replayStream(items, rec, z)
				t.Reset(nil)
				t.Event("RecStream", rt.M{"recTime": rec, "zero": z, "items": encSItems(items), "recErr": recErr})
				t.Event("OutStream", rt.M{"items": out, "err": errS, "closed": closed})
			}
		}
		t.Distinct(key)
	}
	for _, vc := range vclasses {
		for ti, ts := range tagsets {
			items := []sItem{
				{"db", "rp", "m", ts, map[string]any{"f": vc.v}, 1000},
				{"db2", "rp2", "m2", ts, map[string]any{"f": vc.v, "g": int64(1)}, 1009},
			}
			emitS(items, fmt.Sprintf("s/%s/%d", vc.name, ti))
		}
	}
	nRand := 40
	if r.Thorough() {
		nRand = 6000
	}
	safe := []vclass{}
	for _, vc := range vclasses {
		safe = append(safe, vc)
	}
	for i := 0; i < nRand; i++ {
		var items []sItem
		tm := 1000 + r.Rand.Intn(50)
		for k := 1 + r.Rand.Intn(6); k > 0; k-- {
			tm += r.Rand.Intn(4)
			f := map[string]any{}
			for j := 1 + r.Rand.Intn(3); j > 0; j-- {
				f[fmt.Sprintf("f%d", j)] = safe[r.Rand.Intn(len(safe))].v
			}
			items = append(items, sItem{[]string{"db", "db2"}[r.Rand.Intn(2)], "rp", []string{"m", "cpu load"}[r.Rand.Intn(2)], tagsets[r.Rand.Intn(len(tagsets))], f, tm})
		}
		emitS(items, fmt.Sprintf("sr/%d", i))
	}
	// names that look like something else to a careless writer: printf verbs, escapes, separators
	for ni, nm := range [][3]string{{"d%b", "r%s%d", "m%v"}, {"100%", "%", "%%"}, {"d\\n", "r\\t", "m\\x"}, {"a b", "c,d", "e=f"}, {"d\"q", "r'q", "m`q"}} {
		emitS([]sItem{
			{nm[0], nm[1], nm[2], map[string]string{"host": "a"}, map[string]any{"f": int64(1)}, 1000},
			{nm[0], nm[1], nm[2], map[string]string{}, map[string]any{"f": 2.5}, 1003},
		}, fmt.Sprintf("snames/%d", ni))
	}
	// out-of-order recordings: a later point older than the first one (the shift stays the one fixed by the first point)
	for oi, order := range [][]int{{1005, 1001, 1009}, {1005, 1009, 1000, 1005}, {1002, 1002, 1001}} {
		var items []sItem
		for _, tm := range order {
			items = append(items, sItem{"db", "rp", "m", map[string]string{"host": "a"}, map[string]any{"f": int64(tm)}, tm})
		}
		emitS(items, fmt.Sprintf("so/%d", oi))
	}
	// times around the Unix epoch (a timestamp of 0 ns is a time like any other) - model time k of Unix second u
	unix := func(u int) int { return tk(time.Unix(int64(u), 0)) }
	for ui, us := range [][]int{{0, 1}, {-1, 0, 1}, {0, 0}, {5, 0}, {-3, -1}} {
		var items []sItem
		for _, u := range us {
			items = append(items, sItem{"db", "rp", "m", map[string]string{"host": "a"}, map[string]any{"f": int64(u)}, unix(u)})
		}
		emitS(items, fmt.Sprintf("sepoch/%d", ui))
	}
	// sub-second times: nanosecond resolution around the epoch of the model (the recording format keeps nanoseconds)
	curTM = rt.TimeMap{Epoch: rt.DefaultTime.Epoch, Unit: time.Nanosecond}
	for ni, ns := range [][]int{{0, 1, 2}, {1, 999, 1000, 1001}, {999999999, 1000000000, 1000000001}, {-1, 0, 1}, {-1000000001, -999999999, 5}, {123456789, 123456789, 1000000007}} {
		var items []sItem
		for _, n := range ns {
			items = append(items, sItem{"db", "rp", "m", map[string]string{"host": "a"}, map[string]any{"f": int64(n)}, n})
		}
		for _, rec := range modes {
			for _, z := range []int{0, 7, -900000000, 999999999} {
				out, errS, closed, recErr := replayStream(items, rec, z)
				t.Reset(nil)
				t.Event("RecStream", rt.M{"recTime": rec, "zero": z, "items": encSItems(items), "recErr": recErr, "unit": "ns"})
				t.Event("OutStream", rt.M{"items": out, "err": errS, "closed": closed})
			}
		}
		t.Distinct(fmt.Sprintf("sns/%d", ni))
	}
	for bi, b := range []bItem{
		{name: "m", gtags: map[string]string{"host": "a"}, dims: []string{"host"}, tmax: 1000000001, pts: []sItem{{tags: map[string]string{"host": "a"}, fields: map[string]any{"f": 1.5}, t: 1}, {tags: map[string]string{"host": "a"}, fields: map[string]any{"f": 2.5}, t: 999999999}, {tags: map[string]string{"host": "a"}, fields: map[string]any{"f": 3.5}, t: 1000000001}}},
		{name: "m", gtags: map[string]string{"host": "a"}, dims: []string{"host"}, tmax: 7, pts: []sItem{{tags: map[string]string{"host": "a"}, fields: map[string]any{"f": 1.5}, t: -3}, {tags: map[string]string{"host": "a"}, fields: map[string]any{"f": 2.5}, t: 6}}},
	} {
		for _, rec := range modes {
			for _, z := range []int{0, 7, -900000000} {
				out, errS, closed := replayBatch([]bItem{b}, rec, z)
				t.Reset(nil)
				t.Event("RecBatch", rt.M{"recTime": rec, "zero": z, "items": encBItems([]bItem{b}), "unit": "ns"})
				t.Event("OutBatch", rt.M{"items": out, "err": errS, "closed": closed})
			}
		}
		t.Distinct(fmt.Sprintf("bns/%d", bi))
	}
	curTM = rt.DefaultTime
	// large recordings: thousands of points whose three-line records (database, retention policy, line protocol) have
	// every length, so that the reader's buffer boundaries fall at every position of a record
	nLarge, szLarge := 2, 1500
	if r.Thorough() {
		nLarge, szLarge = 25, 4000
	}
	letters := "abcdefghijklmnopqrstuvwxyzABCDEFGHIJKLMNOPQRSTUVWXYZ0123456789_-"
	word := func(n int) string {
		b := make([]byte, n)
		for i := range b {
			b[i] = letters[r.Rand.Intn(len(letters))]
		}
		return string(b)
	}
	for i := 0; i < nLarge; i++ {
		var items []sItem
		tm := 1000
		for k := 0; k < szLarge; k++ {
			tm += r.Rand.Intn(3)
			f := map[string]any{"f": int64(k)}
			if r.Rand.Intn(3) == 0 {
				f["s"] = word(r.Rand.Intn(80))
			}
			items = append(items, sItem{word(1 + r.Rand.Intn(60)), word(1 + r.Rand.Intn(60)), word(1 + r.Rand.Intn(20)), map[string]string{"host": word(1 + r.Rand.Intn(12))}, f, tm})
		}
		out, errS, closed, recErr := replayStream(items, i%2 == 0, 4000)
		t.Reset(nil)
		t.Event("RecStream", rt.M{"recTime": i%2 == 0, "zero": 4000, "items": encSItems(items), "recErr": recErr})
		t.Event("OutStream", rt.M{"items": out, "err": errS, "closed": closed})
		t.Distinct(fmt.Sprintf("slarge/%d", i))
	}
	// ---- batch
	emitB := func(items []bItem, key string) {
		for _, rec := range modes {
			for _, z := range zeros {
				out, errS, closed := replayBatch(items, rec, z)
				t.Reset(nil)
				t.Event("RecBatch", rt.M{"recTime": rec, "zero": z, "items": encBItems(items)})
				t.Event("OutBatch", rt.M{"items": out, "err": errS, "closed": closed})
			}
		}
		t.Distinct(key)
	}
	for _, vc := range vclasses {
		for gi, g := range []bItem{
			{name: "m", gtags: map[string]string{}, tmax: 1010},
			{name: "m", gtags: map[string]string{"host": "a"}, dims: []string{"host"}, tmax: 1010},
			{name: "m", gtags: map[string]string{"host": "a b"}, dims: []string{"host"}, byName: true, tmax: 1009},
			{name: "m", gtags: map[string]string{}, byName: true, tmax: 1010}, // grouped by measurement only
		} {
			b1 := g
			b1.pts = []sItem{{tags: g.gtags, fields: map[string]any{"f": vc.v}, t: 1001}, {tags: g.gtags, fields: map[string]any{"f": vc.v, "g": int64(2)}, t: 1009}}
			b2 := g
			b2.tmax = 1020
			b2.pts = []sItem{{tags: g.gtags, fields: map[string]any{"f": vc.v}, t: 1015}}
			emitB([]bItem{b1, b2}, fmt.Sprintf("b/%s/%d", vc.name, gi))
		}
	}
	// point tags that differ from the group tags: same size/different content, superset, equal
	// (a point with NO tags inside a tagged group is not explored: the batch decoder documents a fallback
	// "point without tags inherits the batch tags", and real batches never contain such a point)
	gt := map[string]string{"host": "a"}
	for pi, ptags := range []map[string]string{{"dc": "x"}, {"host": "b"}, {"host": "a", "dc": "x"}, {"host": "a"}} {
		emitB([]bItem{{name: "m", gtags: gt, dims: []string{"host"}, tmax: 1010, pts: []sItem{
			{tags: ptags, fields: map[string]any{"f": 1.5}, t: 1001}, {tags: gt, fields: map[string]any{"f": 2.5}, t: 1004}}}}, fmt.Sprintf("b/ptags/%d", pi))
	}
	// points of a batch in any time order (a query result ORDER BY time DESC, equal times): the order is part of the data
	for oi, order := range [][]int{{1009, 1005, 1001}, {1005, 1001, 1009}, {1004, 1004, 1002, 1004}, {1001, 1009, 1009, 1001}} {
		var pts []sItem
		for k, tm := range order {
			pts = append(pts, sItem{tags: gt, fields: map[string]any{"f": float64(k) + 0.5}, t: tm})
		}
		emitB([]bItem{{name: "m", gtags: gt, dims: []string{"host"}, tmax: 1010, pts: pts},
			{name: "m", gtags: gt, dims: []string{"host"}, tmax: 1020, pts: []sItem{{tags: gt, fields: map[string]any{"f": 9.5}, t: 1015}, {tags: gt, fields: map[string]any{"f": 8.5}, t: 1012}}}}, fmt.Sprintf("b/order/%d", oi))
	}
	// batches around the Unix epoch
	emitB([]bItem{{name: "m", gtags: gt, dims: []string{"host"}, tmax: unix(2), pts: []sItem{{tags: gt, fields: map[string]any{"f": 1.5}, t: unix(0)}, {tags: gt, fields: map[string]any{"f": 2.5}, t: unix(1)}}},
		{name: "m", gtags: gt, dims: []string{"host"}, tmax: unix(0), pts: []sItem{{tags: gt, fields: map[string]any{"f": 1.5}, t: unix(-2)}, {tags: gt, fields: map[string]any{"f": 2.5}, t: unix(0)}}}}, "b/epoch")
	// empty batches, two groups interleaved, tmax beyond the last point
	g1 := map[string]string{"host": "a"}
	g2 := map[string]string{"host": "b"}
	emitB([]bItem{
		{name: "m", gtags: g1, dims: []string{"host"}, tmax: 1010, pts: []sItem{{tags: g1, fields: map[string]any{"f": int64(1)}, t: 1003}}},
		{name: "m", gtags: g2, dims: []string{"host"}, tmax: 1010, pts: []sItem{}},
		{name: "m", gtags: g2, dims: []string{"host"}, tmax: 1020, pts: []sItem{{tags: g2, fields: map[string]any{"f": int64(2)}, t: 1012}, {tags: g2, fields: map[string]any{"f": int64(3)}, t: 1020}}},
	}, "b/empty")
	nRandB := 20
	if r.Thorough() {
		nRandB = 1500
	}
	for i := 0; i < nRandB; i++ {
		var items []bItem
		tm := 1000 + r.Rand.Intn(20)
		g := tagsets[1+r.Rand.Intn(len(tagsets)-1)]
		dims := []string{}
		for k := range g {
			dims = append(dims, k)
		}
		sort.Strings(dims)
		for nb := 1 + r.Rand.Intn(3); nb > 0; nb-- {
			b := bItem{name: []string{"m", "cpu load"}[r.Rand.Intn(2)], gtags: g, dims: dims, byName: r.Rand.Intn(2) == 0}
			for np := 1 + r.Rand.Intn(3); np > 0; np-- {
				tm += r.Rand.Intn(4)
				f := map[string]any{}
				for j := 1 + r.Rand.Intn(2); j > 0; j-- {
					f[fmt.Sprintf("f%d", j)] = vclasses[r.Rand.Intn(len(vclasses))].v
				}
				b.pts = append(b.pts, sItem{tags: g, fields: f, t: tm})
			}
			tm += r.Rand.Intn(3)
			b.tmax = tm
			items = append(items, b)
		}
		emitB(items, fmt.Sprintf("br/%d", i))
	}
	runArchive(r, t)
	runChan(r, t)
	r.Extra["value_classes"] = len(vclasses)
	r.Extra["tag_sets"] = len(tagsets)
	r.Finish("every value class (ints incl. beyond 2^53 and MinInt64, floats incl. integral, bools, strings with quote/comma/space/newline/unicode/backslash/equals) x tag sets (empty, spaces, commas, equals, unicode) recorded and replayed as stream points and as batches (3 group shapes, empty batch, tmax beyond the last point), in both clock modes and for 3 clock zeros (later, earlier, far earlier than the data); plus seeded random sequences; distinct by case key", false)
	return nil
}
