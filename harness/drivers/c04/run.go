package c04

import (
	"math"
	"math/rand"
	"strings"
	"time"

	"kapverif/rt"
)

func init() {
	time.Local = time.UTC // EvalPredicate binds "time" to Time().Local(): hour()/minute() must not depend on the machine
	rt.Register("c04", Run)
}

var (
	allOps   = []string{"+", "-", "*", "/", "%", "==", "!=", "<", "<=", ">", ">=", "=~", "!~", "AND", "OR"}
	arithOps = []string{"+", "-", "*", "/", "%"}

	// the value domain of the model
	domain = []V{
		Int(-2), Int(-1), Int(0), Int(1), Int(2), Int(3),
		Flt(-1.5), Flt(-1), Flt(0), Flt(0.5), Flt(2), Flt(2.5),
		Str(""), Str("a"), Str("ab"), Str("b"), Str("1"),
		Bool(true), Bool(false),
		Dur(-time.Second), Dur(0), Dur(time.Second), Dur(2 * time.Second),
		Tim(0), Tim(61),
		Missing,
		// the rest of float64: NaN, the infinities, negative zero (only as scope values, they have no literal)
		Flt(math.NaN()), Flt(math.Inf(1)), Flt(math.Inf(-1)), Flt(math.Copysign(0, -1)),
	}
	// a smaller domain with every type for the wider products
	domainS = []V{Int(0), Int(2), Flt(0.5), Flt(2), Str("a"), Str("ab"), Str("1"), Bool(true), Bool(false), Dur(time.Second), Tim(61), Missing}
	// one value per type: the typings of a reference
	typ6 = []V{Int(2), Flt(2), Str("a"), Bool(true), Dur(time.Second), Missing}
	typ4 = []V{Int(2), Flt(2), Dur(time.Second), Str("a")}
	typ3 = []V{Int(2), Flt(0.5), Dur(time.Second)}
	lits = []V{Int(1), Flt(1.5), Str("a"), Bool(true), Dur(time.Second), Rex("a")}
)

// scopes1 lists a scope per value of one reference, plus the scope where it is undefined.
func scopes1(name string, vals []V) []entry {
	out := []entry{}
	for _, v := range vals {
		out = append(out, scopeEntry(name, v))
	}
	return append(out, scopeEntry())
}

func scopes2(a, b string, va, vb []V, undef bool) []entry {
	out := []entry{}
	for _, x := range va {
		for _, y := range vb {
			out = append(out, scopeEntry(a, x, b, y))
		}
	}
	if undef {
		out = append(out, scopeEntry(a, va[0]), scopeEntry(b, vb[0]), scopeEntry())
	}
	return out
}

func scopes3(va, vb, vc []V) []entry {
	out := []entry{}
	for _, x := range va {
		for _, y := range vb {
			for _, z := range vc {
				out = append(out, scopeEntry("a", x, "b", y, "c", z))
			}
		}
	}
	return out
}

func seqRun(order []int, mode byte) []step {
	run := make([]step, len(order))
	for i, k := range order {
		run[i] = step{k: k, mode: mode}
	}
	return run
}

func ident(n int) []int {
	o := make([]int, n)
	for i := range o {
		o[i] = i
	}
	return o
}

var scalarModes = []byte{'E', 'T', 'I', 'F', 'S', 'B', 'D'}

// longRuns: the whole input table evaluated on one compiled expression in seeded random orders: once through
// Eval, once through the matching typed call, once with random API calls.
func longRuns(r *rand.Rand, n int) ([][]step, []policy) {
	mixed := make([]step, n)
	for i, k := range r.Perm(n) {
		mixed[i] = step{k: k, mode: scalarModes[r.Intn(len(scalarModes))]}
	}
	return [][]step{seqRun(r.Perm(n), 'E'), seqRun(r.Perm(n), 0), mixed}, nil
}

// histories: every sequence of inputs of length 1..maxLen, each on a freshly compiled expression.
func histories(n, maxLen int, mode byte) [][]step {
	var out [][]step
	var rec func(prefix []int)
	rec = func(prefix []int) {
		if len(prefix) > 0 {
			out = append(out, seqRun(prefix, mode))
		}
		if len(prefix) == maxLen {
			return
		}
		for k := 0; k < n; k++ {
			rec(append(append([]int{}, prefix...), k))
		}
	}
	rec(nil)
	return out
}

// copyPatterns: the same histories with the steps spread over CopyReset copies in every way that
// starts on copy 0 (copies are symmetric).
func withCopies(runs [][]step) [][]step {
	var out [][]step
	for _, run := range runs {
		n := len(run)
		for mask := 0; mask < 1<<uint(n); mask++ {
			if mask&1 == 1 {
				continue
			}
			cp := make([]step, n)
			copy(cp, run)
			for i := range cp {
				cp[i].cp = (mask >> uint(i)) & 1
			}
			out = append(out, cp)
		}
	}
	return out
}

func Run(r *rt.Run) error {
	thorough := r.Thorough()
	x := newExecutor(r, 12)
	rnd := r.Rand
	a, b, c := Ref("a"), Ref("b"), Ref("c")

	// ---- showcase cases first (small lines: they become the evidence samples; one per trace file) ----
	show := []kase{
		{n: Bin(">", a, Lit(Flt(1))), entries: []entry{scopeEntry("a", Flt(2)), scopeEntry("a", Int(0)), scopeEntry("a", Str("a"))},
			runs: [][]step{seqRun([]int{0, 1, 2, 0}, 'E'), seqRun([]int{1, 0, 2}, 'B')}},
		{n: Bin("AND", a, Bin(">", Call("count"), Lit(Int(1)))), entries: []entry{scopeEntry("a", Bool(false)), scopeEntry("a", Bool(true))},
			runs: [][]step{seqRun([]int{0, 1, 0, 1, 1}, 'E')}},
		{n: Call("strSubstring", a, Lit(Int(0)), b), entries: scopes2("a", "b", []V{Str("ab")}, []V{Int(1), Int(2), Int(3), Int(-1)}, false),
			runs: [][]step{seqRun(ident(4), 'E')}},
		{n: Bin("*", Call("count"), a), entries: []entry{scopeEntry("a", Int(2)), scopeEntry("a", Dur(time.Second))},
			runs: [][]step{seqRun([]int{0, 1, 1}, 'E'), seqRun([]int{1, 1}, 'E')}},
		{n: Bin("+", a, b), entries: scopes2("a", "b", typ3, typ3, false), runs: histories(9, 2, 0), pol: polTyped},
		{n: Bin("AND", Un("!", a), Lit(Bool(true))), entries: scopes1("a", []V{Bool(false), Int(1)}), runs: [][]step{seqRun([]int{0, 1, 0, 2, 0}, 'E')}},
		{n: Bin("/", a, b), entries: scopes2("a", "b", []V{Int(3), Int(-3)}, []V{Int(2), Int(0), Int(-2)}, false), runs: [][]step{seqRun(ident(6), 'E')}},
		{n: Un("-", a), entries: scopes1("a", domainS), runs: [][]step{seqRun(ident(13), 'E')}},
		{n: Bin("==", Lam(Bin("<", Call("count"), Lit(Int(2)))), Lit(Bool(true))), entries: []entry{scopeEntry()},
			runs: [][]step{{{0, 'E', 0}, {0, 'E', 1}, {0, 'E', 0}, {0, 'E', 1}, {0, 'Z', 0}, {0, 'E', 0}}}},
		{n: Bin("=~", a, Lit(Rex("^a"))), entries: scopes1("a", domainS), runs: [][]step{seqRun(ident(13), 'E')}},
		{n: Call("if", a, b, Lit(Int(1))), entries: scopes2("a", "b", []V{Bool(true), Bool(false), Int(1)}, []V{Int(2), Flt(2)}, false), runs: [][]step{seqRun(ident(6), 'E')}},
		{n: Bin("/", Lit(Dur(time.Second)), a), entries: scopes1("a", domainS), runs: [][]step{seqRun(ident(13), 'E')}},
	}
	for _, k := range show {
		k.family = "showcase"
		x.run(k)
	}

	// ---- A: the operator x type x value matrix ----
	full2 := scopes2("a", "b", domain, domain, true)
	for _, op := range allOps {
		runs, _ := longRuns(rnd, len(full2))
		x.run(kase{n: Bin(op, a, b), entries: full2, runs: runs, pol: polTyped, family: "matrix"})
	}
	one := scopes1("a", domain)
	for _, op := range allOps {
		for _, l := range lits {
			for _, n := range []*N{Bin(op, Lit(l), a), Bin(op, a, Lit(l))} {
				runs, _ := longRuns(rnd, len(one))
				x.run(kase{n: n, entries: one, runs: runs[:2], pol: polTyped, family: "matrix-literal"})
			}
			for _, l2 := range lits {
				x.run(kase{n: Bin(op, Lit(l), Lit(l2)), entries: []entry{scopeEntry()},
					runs: [][]step{{{0, 'E', 0}, {0, 'T', 0}, {0, 'B', 0}}, {{0, 0, 0}}}, pol: polTyped, family: "matrix-constant"})
			}
		}
	}
	for _, op := range []string{"-", "!"} {
		runs, _ := longRuns(rnd, len(one))
		x.run(kase{n: Un(op, a), entries: one, runs: runs, pol: polTyped, family: "unary"})
		for _, l := range lits {
			x.run(kase{n: Un(op, Lit(l)), entries: []entry{scopeEntry()}, runs: [][]step{{{0, 'E', 0}, {0, 'T', 0}}, {{0, 0, 0}}}, pol: polTyped, family: "unary"})
		}
		for _, inner := range []string{"+", "<", "AND"} {
			s2 := scopes2("a", "b", typ6, typ6, false)
			runs, _ := longRuns(rnd, len(s2))
			x.run(kase{n: Un(op, Bin(inner, a, b)), entries: s2, runs: runs, pol: polTyped, family: "unary"})
		}
	}

	// ---- B: built-in functions ----
	for _, f := range []string{"int", "float", "bool", "string", "abs", "floor", "ceil", "trunc", "strLength", "strToUpper", "strToLower",
		"isPresent", "minute", "hour", "day", "month", "year", "weekday", "duration", "nosuchfunc"} {
		runs, _ := longRuns(rnd, len(one))
		x.run(kase{n: Call(f, a), entries: one, runs: runs, pol: polTyped, family: "builtin"})
	}
	strs := []V{Str(""), Str("a"), Str("ab"), Str("b"), Str("ba"), Str("aab"), Str("A1")}
	ss := scopes2("a", "b", append(append([]V{}, strs...), Int(1), Missing), append(append([]V{}, strs...), Flt(2)), true)
	for _, f := range []string{"strContains", "strHasPrefix", "strHasSuffix", "strIndex", "strLastIndex", "strTrimPrefix", "strTrimSuffix",
		"strCount", "strContainsAny", "strIndexAny", "strLastIndexAny", "strTrim", "strTrimLeft", "strTrimRight"} {
		runs, _ := longRuns(rnd, len(ss))
		x.run(kase{n: Call(f, a, b), entries: ss, runs: runs[:2], pol: polTyped, family: "builtin"})
	}
	small2 := scopes2("a", "b", domainS, domainS, true)
	{
		sp := scopes1("a", []V{Str(" a "), Str("a b"), Str("\ta\n"), Str("  "), Str(""), Str("a"), Int(1), Missing})
		runs, _ := longRuns(rnd, len(sp))
		x.run(kase{n: Call("strTrimSpace", a), entries: sp, runs: runs, pol: polTyped, family: "builtin"})
		tt := scopes1("a", []V{Tim(0), Tim(61), Tim(1439), Tim(1440), Tim(1500), Tim(10 * 1440), Int(1), Missing})
		for _, f := range []string{"day", "weekday", "hour", "minute"} {
			runs, _ := longRuns(rnd, len(tt))
			x.run(kase{n: Call(f, a), entries: tt, runs: runs[:2], pol: polTyped, family: "builtin"})
		}
		fl := []V{Flt(-2.5), Flt(-2), Flt(-0.5), Flt(0), Flt(0.5), Flt(2), Flt(2.5), Flt(5), Int(2), Missing}
		ff := scopes2("a", "b", fl, fl, false)
		runs2, _ := longRuns(rnd, len(ff))
		x.run(kase{n: Call("mod", a, b), entries: ff, runs: runs2[:2], pol: polTyped, family: "builtin"})
	}
	for _, f := range []string{"min", "max", "mod", "duration"} {
		runs, _ := longRuns(rnd, len(small2))
		x.run(kase{n: Call(f, a, b), entries: small2, runs: runs[:2], pol: polTyped, family: "builtin"})
	}
	for _, unit := range []V{Dur(time.Second), Dur(time.Millisecond), Dur(-2 * time.Second)} {
		runs, _ := longRuns(rnd, len(one))
		x.run(kase{n: Call("duration", a, Lit(unit)), entries: one, runs: runs[:2], pol: polTyped, family: "builtin"})
	}
	idx := []V{Int(-1), Int(0), Int(1), Int(2), Int(3)}
	for _, s := range []V{Str(""), Str("a"), Str("ab"), Int(1)} {
		sub := scopes2("a", "b", idx, append(append([]V{}, idx...), Flt(1)), false)
		runs, _ := longRuns(rnd, len(sub))
		x.run(kase{n: Call("strSubstring", Lit(s), a, b), entries: sub, runs: runs[:2], pol: polTyped, family: "builtin"})
	}
	{
		s3 := scopes3([]V{Bool(true), Bool(false), Int(1), Missing}, domainS, domainS)
		runs, _ := longRuns(rnd, len(s3))
		x.run(kase{n: Call("if", a, b, c), entries: s3, runs: runs[:2], pol: polTyped, family: "builtin"})
		x.run(kase{n: Call("if", Bin(">", a, Lit(Int(0))), Bin("+", b, Lit(Int(1))), Bin("/", Lit(Int(1)), c)),
			entries: scopes3([]V{Int(0), Int(1), Flt(2), Missing}, []V{Int(1), Flt(1), Str("a")}, []V{Int(0), Int(1), Flt(2)}),
			runs:    [][]step{seqRun(rnd.Perm(36), 'E'), seqRun(rnd.Perm(36), 0)}, pol: polTyped, family: "builtin"})
	}
	for _, n := range []*N{Call("count", a), Call("abs"), Call("abs", a, b), Call("if", a, b), Call("strLength"), Call("isPresent", Bin("+", a, Lit(Int(1))))} {
		x.run(kase{n: n, entries: small2, runs: [][]step{seqRun(rnd.Perm(len(small2)), 'E')}, family: "builtin"})
	}

	// ---- B2: the conversion functions over the string classes of their grammars and over every argument type ----
	convVals := []V{}
	for _, str := range convStrings {
		convVals = append(convVals, Str(str))
	}
	convVals = append(convVals, Int(-12), Int(0), Int(1), Int(2), Int(1000), Flt(-1.5), Flt(-0.375), Flt(0), Flt(0.125), Flt(0.5), Flt(1), Flt(2.5), Flt(100),
		Bool(true), Bool(false), Dur(0), Dur(1500*time.Millisecond), Dur(90*time.Second), Dur(time.Hour), Dur(-7*24*time.Hour), Dur(36*time.Hour), Tim(61), Missing)
	conv := scopes1("a", convVals)
	for _, n := range []*N{Call("int", a), Call("float", a), Call("bool", a), Call("string", a), Call("duration", a),
		Call("duration", a, Lit(Dur(time.Second))), Call("duration", a, Lit(Dur(time.Millisecond))), Call("duration", a, Lit(Dur(-90*time.Minute))),
		Call("string", Call("duration", a, Lit(Dur(time.Second)))), Call("int", Call("string", a)), Call("float", Call("string", a)), Call("string", Call("float", a))} {
		runs, _ := longRuns(rnd, len(conv))
		x.run(kase{n: n, entries: conv, runs: runs, pol: polTyped, family: "conversion"})
	}
	for _, str := range convStrings {
		if strings.ContainsAny(str, "\t\n'\\") {
			continue // no literal form
		}
		for _, f := range []string{"int", "float", "bool"} {
			x.run(kase{n: Call(f, Lit(Str(str))), entries: []entry{scopeEntry()}, runs: [][]step{{{0, 'E', 0}, {0, 'T', 0}}, {{0, 0, 0}}}, pol: polTyped, family: "conversion"})
		}
		x.run(kase{n: Call("duration", Lit(Str(str)), Lit(Dur(time.Second))), entries: []entry{scopeEntry()}, runs: [][]step{{{0, 'E', 0}}, {{0, 'D', 0}}}, family: "conversion"})
	}

	// ---- C: every history of scope typings on one compiled expression (the specialisation cache) ----
	histOps := []string{"+", "-", "*", "/", "%", "<", "==", "AND", "=~"}
	t66 := scopes2("a", "b", typ6, typ6, false)
	t44 := scopes2("a", "b", typ4, typ4, false)
	for _, op := range histOps {
		x.run(kase{n: Bin(op, a, b), entries: t66, runs: histories(len(t66), 2, 'E'), family: "history"})
		x.run(kase{n: Bin(op, a, b), entries: t66, runs: histories(len(t66), 2, 0), pol: polTyped, family: "history"})
	}
	for _, op := range arithOps {
		x.run(kase{n: Bin(op, a, b), entries: t44, runs: histories(len(t44), 3, 0), pol: polTyped, family: "history"})
		if thorough {
			x.run(kase{n: Bin(op, a, b), entries: t44, runs: histories(len(t44), 3, 'E'), family: "history"})
		}
	}
	// length 3 over all six typings of both references
	long3 := []string{"+", "*", "/"}
	if thorough {
		long3 = []string{"+", "-", "*", "/", "%", "<", "==", "AND"}
	}
	for i, op := range long3 {
		x.run(kase{n: Bin(op, a, b), entries: t66, runs: histories(len(t66), 3, 0), pol: polTyped, family: "history"})
		if thorough && i < 5 {
			x.run(kase{n: Bin(op, a, b), entries: t66, runs: histories(len(t66), 3, 'E'), family: "history"})
		}
	}
	// Type() and EvalBool interleaved with the typed calls (both touch the cached operand types)
	for _, op := range []string{"+", "*", "/"} {
		var runs [][]step
		for _, h := range histories(len(t44), 2, 0) {
			for _, pre := range []byte{'T', 'B', 'E'} {
				run := []step{}
				for _, s := range h {
					run = append(run, step{k: s.k, mode: pre}, step{k: s.k, mode: 0})
				}
				runs = append(runs, run)
			}
		}
		x.run(kase{n: Bin(op, a, b), entries: t44, runs: runs, pol: polTyped, family: "history"})
	}

	// ---- D: depth 2: two caches, a cache under a unary / call / comparison / static node ----
	t333 := scopes3(typ3, typ3, typ3)
	if thorough {
		t333 = scopes3(typ4, typ4, typ4)
	}
	innerOps := arithOps
	outerOps := []string{"+", "*", "/", "<", "=="}
	if !thorough {
		innerOps = []string{"+", "*", "/"}
		outerOps = []string{"+", "*", "<"}
	}
	for _, o1 := range innerOps {
		for i, o2 := range outerOps {
			mode := byte('E')
			pol := polFixed
			if i%2 == 0 {
				mode, pol = 0, polTyped
			}
			x.run(kase{n: Bin(o2, Bin(o1, a, b), c), entries: t333, runs: histories(len(t333), 2, mode), pol: pol, family: "depth2"})
			x.run(kase{n: Bin(o2, c, Bin(o1, a, b)), entries: t333, runs: histories(len(t333), 2, mode), pol: pol, family: "depth2"})
		}
		for _, n := range []*N{Un("-", Bin(o1, a, b)), Call("abs", Bin(o1, a, b)), Call("int", Bin(o1, a, b)), Call("string", Bin(o1, a, b)),
			Bin(o1, Un("-", a), b), Bin(o1, Call("float", a), b), Bin("AND", Bin("<", Bin(o1, a, b), Lit(Int(1))), Lit(Bool(true)))} {
			x.run(kase{n: n, entries: t44, runs: histories(len(t44), 2, 0), pol: polTyped, family: "depth2"})
			x.run(kase{n: n, entries: t44, runs: histories(len(t44), 2, 'E'), family: "depth2"})
		}
	}
	// static nodes over operands that may be mistyped at run time
	for _, n := range []*N{Bin("AND", Un("!", a), Lit(Bool(true))), Bin("OR", Un("!", a), Un("!", b)), Bin("==", Un("!", a), Bin("<", b, Lit(Int(1)))),
		Bin("AND", Bin("<", a, Lit(Int(3))), Bin(">", b, Lit(Flt(1)))), Bin("OR", Bin("=~", a, Lit(Rex("a"))), Bin("!=", b, Lit(Str("a"))))} {
		x.run(kase{n: n, entries: t66, runs: histories(len(t66), 2, 'E'), family: "depth2"})
		x.run(kase{n: n, entries: t66, runs: histories(len(t66), 2, 'B'), family: "depth2"})
	}

	// ---- S: stateful functions, CopyReset copies evaluated alternately, Reset ----
	sv := []V{Int(2), Flt(2), Flt(0.5), Dur(time.Second), Bool(true), Bool(false), Missing}
	s1 := scopes1("a", sv)
	cnt := Call("count")
	stateful1 := []*N{
		cnt, Bin(">", cnt, Lit(Int(1))), Bin("*", cnt, a), Bin("*", a, cnt), Bin("+", cnt, a), Bin("<", cnt, a), Bin("/", a, cnt),
		Bin("AND", a, Bin(">", cnt, Lit(Int(1)))), Bin("OR", a, Bin(">", cnt, Lit(Int(1)))), Bin("AND", Bin(">", cnt, Lit(Int(1))), a),
		Call("if", a, cnt, Lit(Int(0))), Call("spread", a), Bin("+", Call("spread", a), a), Bin("<", Call("spread", a), Lit(Flt(1))),
		Call("sigma", a), Bin(">", Call("sigma", a), Lit(Flt(0.5))), Bin("+", cnt, cnt), Bin("*", Call("spread", a), cnt),
		Bin("==", Lam(Bin("<", cnt, Lit(Int(2)))), a), Bin("AND", Lam(Bin("<", cnt, Lit(Int(3)))), Lam(Bin(">", cnt, Lit(Int(1))))),
		Lam(Bin("+", cnt, a)), Bin("+", Lam(cnt), cnt), Call("int", Bin("*", cnt, a)),
	}
	hl := 3
	for _, n := range stateful1 {
		runs := withCopies(histories(len(s1), hl, 'E'))
		x.run(kase{n: n, entries: s1, runs: runs, family: "stateful"})
		x.run(kase{n: n, entries: s1, runs: histories(len(s1), hl, 0), pol: polTyped, family: "stateful"})
		// Reset() between evaluations
		var rr [][]step
		for _, h := range histories(len(s1), 2, 'E') {
			if len(h) == 2 {
				rr = append(rr, []step{h[0], {0, 'Z', 0}, h[1]}, []step{h[0], {0, 'E', 1}, {0, 'Z', 0}, h[1], {h[1].k, 'E', 1}})
			}
		}
		x.run(kase{n: n, entries: s1, runs: rr, family: "stateful"})
	}
	if thorough {
		// length 4 with every copy assignment for the expressions where the cache and the function state meet
		s4 := scopes1("a", []V{Int(2), Flt(2), Dur(time.Second), Bool(false), Missing})
		for _, n := range []*N{Bin("*", cnt, a), Bin("*", a, cnt), Bin("AND", a, Bin(">", cnt, Lit(Int(1)))), Call("if", a, cnt, Lit(Int(0))),
			Bin("+", Call("spread", a), a), Bin(">", Call("sigma", a), Lit(Flt(0.5))), Lam(Bin("+", cnt, a)), Bin("==", Lam(Bin("<", cnt, Lit(Int(2)))), a)} {
			x.run(kase{n: n, entries: s4, runs: withCopies(histories(len(s4), 4, 'E')), family: "stateful"})
		}
	}

	// ---- N: NaN, +-Inf and -0 as arguments and as HISTORY of the stateful and the math built-ins ----
	fcls := []V{Flt(math.NaN()), Flt(math.Inf(1)), Flt(math.Inf(-1)), Flt(math.Copysign(0, -1)), Flt(0), Flt(1), Flt(2.5), Flt(-1.5), Flt(-4)}
	f1 := scopes1("a", fcls)
	for _, n := range []*N{Call("spread", a), Call("sigma", a), Bin(">", Call("spread", a), Lit(Flt(1))), Bin(">", Call("sigma", a), Lit(Flt(0.5))),
		Call("spread", Call("sqrt", a)), Call("sigma", Call("log", a)), Call("spread", Bin("/", a, a)), Call("spread", Bin("*", a, Lit(Flt(0)))),
		Call("if", Bin(">", a, Lit(Flt(0))), cnt, Lit(Int(0))), Bin("*", Call("float", cnt), a), Bin("+", Call("spread", a), Call("sigma", a)),
		Call("string", Call("spread", a)), Call("min", Call("spread", a), a), Lam(Call("spread", a)), Bin("==", Call("sigma", a), Call("sigma", a))} {
		x.run(kase{n: n, entries: f1, runs: histories(len(f1), 3, 'E'), family: "special-floats"})
		var two [][]step
		for _, h := range histories(len(f1), 2, 'E') {
			if len(h) == 2 {
				two = append(two, []step{h[0], {h[1].k, 'E', 1}, h[1], {h[0].k, 'E', 1}}, []step{{h[0].k, 'F', 0}, {h[1].k, 'B', 0}, {h[1].k, 'F', 0}})
			}
		}
		x.run(kase{n: n, entries: f1, runs: two, family: "special-floats"})
	}
	f2 := scopes2("a", "b", fcls, fcls, false)
	for _, f := range []string{"min", "max", "mod"} {
		runs, _ := longRuns(rnd, len(f2))
		x.run(kase{n: Call(f, a, b), entries: f2, runs: runs[:2], pol: polTyped, family: "special-floats"})
	}
	for _, f := range []string{"abs", "floor", "ceil", "trunc", "sqrt", "log", "int", "float", "bool", "string", "isPresent"} {
		runs, _ := longRuns(rnd, len(f1))
		x.run(kase{n: Call(f, a), entries: f1, runs: runs[:2], pol: polTyped, family: "special-floats"})
	}
	for _, n := range []*N{Bin("*", a, Lit(Dur(time.Second))), Bin("*", Lit(Dur(time.Second)), a), Bin("/", Lit(Dur(time.Second)), a), Call("duration", a, Lit(Dur(time.Second))),
		Bin(">", a, Lit(Int(1))), Bin("==", Lit(Int(1)), a), Un("-", a), Bin("+", a, Un("-", a))} {
		runs, _ := longRuns(rnd, len(f1))
		x.run(kase{n: n, entries: f1, runs: runs[:2], pol: polTyped, family: "special-floats"})
	}

	// ---- Z: zero divisors of every numeric/duration type for / and % through EVERY API path: an error for the point, never a panic ----
	zvals := []V{Int(0), Int(2), Int(-3), Flt(0), Flt(math.Copysign(0, -1)), Flt(2), Dur(0), Dur(time.Second), Dur(-3 * time.Second), Str("a"), Missing}
	zz := scopes2("a", "b", zvals, zvals, true)
	allModes := []byte{'E', 'T', 'I', 'F', 'S', 'B', 'D'}
	var zruns [][]step
	for _, m := range allModes { // the whole table through one API call each, on one compiled expression
		zruns = append(zruns, seqRun(rnd.Perm(len(zz)), m))
	}
	zruns = append(zruns, seqRun(rnd.Perm(len(zz)), 0))
	for _, n := range []*N{Bin("/", a, b), Bin("%", a, b), Bin("/", Lit(Int(7)), b), Bin("%", Lit(Int(7)), b), Bin("/", Lit(Dur(time.Second)), b), Bin("/", a, Lit(Int(0))),
		Bin("%", a, Lit(Int(0))), Bin("/", a, Lit(Dur(0))), Bin("==", Bin("/", a, b), Lit(Int(1))), Bin("<", Bin("%", a, b), Lit(Int(1))), Bin(">", Bin("/", a, b), Lit(Dur(time.Second))),
		Bin("AND", Bin(">", a, Lit(Int(0))), Bin("==", Bin("/", a, b), Lit(Int(1)))), Bin("+", Bin("/", a, b), Lit(Int(1))), Un("-", Bin("/", a, b)),
		Call("float", Bin("/", a, b)), Call("string", Bin("%", a, b)), Call("if", Bin("==", Bin("%", a, b), Lit(Int(0))), Lit(Int(1)), Lit(Int(2))),
		Call("duration", Bin("/", a, b), Lit(Dur(time.Second))), Lam(Bin("/", a, b)), Bin("/", cnt, b)} {
		x.run(kase{n: n, entries: zz, runs: zruns, pol: polTyped, family: "zero-divisor"})
	}
	// the same through EvalPredicate (Type, then EvalBool) on points
	var zpts []entry
	zf := []V{Int(0), Int(2), Flt(0), Flt(2), Str("a")}
	for i := 0; i <= len(zf); i++ {
		for j := 0; j <= len(zf); j++ {
			e := entry{point: true, fields: map[string]V{}, tags: map[string]string{}, tm: 61}
			if i < len(zf) {
				e.fields["a"] = zf[i]
			}
			if j < len(zf) {
				e.fields["b"] = zf[j]
			}
			zpts = append(zpts, e)
		}
	}
	for _, n := range []*N{Bin("==", Bin("/", a, b), Lit(Int(1))), Bin("<", Bin("%", a, b), Lit(Int(1))), Bin("==", Bin("/", a, Lit(Int(0))), Lit(Int(1))), Bin("/", a, b),
		Bin("OR", Bin("==", Bin("%", a, b), Lit(Int(0))), Bin(">", a, Lit(Int(1)))), Bin(">", Bin("/", Lit(Dur(time.Second)), b), Lit(Dur(0))),
		Bin("==", Bin("/", Lit(Dur(time.Second)), Bin("-", Lit(Dur(time.Second)), Lit(Dur(time.Second)))), Lit(Int(1))), Bin("==", Bin("/", cnt, b), Lit(Int(1)))} {
		x.run(kase{n: n, entries: zpts, runs: [][]step{seqRun(rnd.Perm(len(zpts)), 'P'), seqRun(rnd.Perm(len(zpts)), 'P')}, family: "zero-divisor"})
	}

	// ---- U: non-ASCII strings: every string built-in works on BYTES (2-, 3-, 4-byte runes, a combining mark, invalid UTF-8) ----
	ustr := []V{Str("caf\u00e9"), Str("\u00e9"), Str("\u20ac5"), Str("\U0001F600"), Str("e\u0301"), Str("\xff"), Str("a\xc3"), Str("\xa9"), Str("\u65e5\u672c"), Str("ab"), Str("a"), Str(""), Str("A\u00c9"), Int(1)}
	u1 := scopes1("a", ustr)
	u2 := scopes2("a", "b", ustr, ustr, false)
	for _, n := range []*N{Call("strLength", a), Call("strSubstring", a, Lit(Int(0)), Call("strLength", a)), Bin("==", Call("strSubstring", a, Lit(Int(0)), Call("strLength", a)), a),
		Call("strSubstring", a, Lit(Int(1)), Call("strLength", a)), Call("strSubstring", a, Lit(Int(0)), Lit(Int(4))), Call("strSubstring", a, Lit(Int(3)), Lit(Int(5))),
		Call("strToUpper", a), Call("strToLower", a), Call("strTrimSpace", a), Call("string", a), Bin("+", a, Lit(Str("!"))), Bin("=~", a, Lit(Rex("a"))),
		Call("strLength", Bin("+", a, a)), Call("strReplace", a, Lit(Str("")), Lit(Str("-")), Lit(Int(-1))), Call("regexReplace", Lit(Rex("a")), a, Lit(Str("_"))),
		Call("regexReplace", Lit(Rex("^a")), a, Lit(Str(""))), Call("int", a), Call("float", a), Call("bool", a)} {
		runs, _ := longRuns(rnd, len(u1))
		x.run(kase{n: n, entries: u1, runs: runs, pol: polTyped, family: "unicode"})
	}
	for _, f := range []string{"strContains", "strHasPrefix", "strHasSuffix", "strIndex", "strLastIndex", "strTrimPrefix", "strTrimSuffix", "strCount", "strContainsAny",
		"strIndexAny", "strLastIndexAny", "strTrim", "strTrimLeft", "strTrimRight"} {
		runs, _ := longRuns(rnd, len(u2))
		x.run(kase{n: Call(f, a, b), entries: u2, runs: runs[:2], pol: polTyped, family: "unicode"})
	}
	for _, op := range []string{"+", "==", "!=", "<", "<=", ">", ">="} {
		runs, _ := longRuns(rnd, len(u2))
		x.run(kase{n: Bin(op, a, b), entries: u2, runs: runs[:2], pol: polTyped, family: "unicode"})
	}
	for _, n := range []*N{Call("strReplace", a, b, Lit(Str("-")), Lit(Int(-1))), Call("strReplace", a, b, Lit(Str("")), Lit(Int(1))), Call("strReplace", a, Lit(Str("a")), b, Lit(Int(2))),
		Call("strSubstring", a, Call("strIndex", a, b), Call("strLength", a)), Call("regexReplace", Lit(Rex("b$")), a, b)} {
		runs, _ := longRuns(rnd, len(u2))
		x.run(kase{n: n, entries: u2, runs: runs[:2], pol: polTyped, family: "unicode"})
	}
	for _, lit := range []string{"caf\u00e9", "\u20ac5", "\U0001F600", "e\u0301"} {
		for _, n := range []*N{Call("strLength", Lit(Str(lit))), Call("strSubstring", Lit(Str(lit)), Lit(Int(0)), Call("strLength", Lit(Str(lit)))), Call("strIndex", Lit(Str(lit)), Lit(Str("5")))} {
			x.run(kase{n: n, entries: []entry{scopeEntry()}, runs: [][]step{{{0, 'E', 0}, {0, 'T', 0}}, {{0, 0, 0}}}, pol: polTyped, family: "unicode"})
		}
	}
	// ASCII coverage of the two functions that are new in the model
	a3 := scopes3([]V{Str("abab"), Str("aaa"), Str(""), Str("b")}, []V{Str("a"), Str("ab"), Str(""), Str("x")}, []V{Int(-1), Int(0), Int(1), Int(2), Int(5)})
	for _, n := range []*N{Call("strReplace", a, b, Lit(Str("-")), c), Call("strReplace", a, b, Lit(Str("")), c), Call("strReplace", a, b, b, c)} {
		runs, _ := longRuns(rnd, len(a3))
		x.run(kase{n: n, entries: a3, runs: runs[:2], pol: polTyped, family: "unicode"})
	}
	for _, rx := range []string{"a", "^a", "b$", "^$", "1"} {
		runs, _ := longRuns(rnd, len(ss))
		x.run(kase{n: Call("regexReplace", Lit(Rex(rx)), a, b), entries: ss, runs: runs[:2], pol: polTyped, family: "unicode"})
	}
	x.run(kase{n: Call("abs", a, a, a, a, a), entries: one, runs: [][]step{seqRun(rnd.Perm(len(one)), 'E'), seqRun(rnd.Perm(len(one)), 'T'), seqRun(rnd.Perm(len(one)), 'F')}, family: "builtin"})

	// ---- G: int64 around +-2^53, +-2^62, MaxInt64, MinInt64 (v, v+-1, v+-2) as BOTH operands of every comparison and arithmetic operator ----
	var bigs []V
	for _, base := range []int64{1 << 53, -(1 << 53), 1 << 62, -(1 << 62)} {
		for d := int64(-2); d <= 3; d++ {
			bigs = append(bigs, Int(base+d))
		}
	}
	for d := int64(0); d <= 3; d++ {
		bigs = append(bigs, Int(math.MaxInt64-d), Int(math.MinInt64+d))
	}
	bigs = append(bigs, Int(0), Int(1), Int(-1), Int(2), Int(-3), Flt(1<<53), Flt(1<<53+2), Flt(1<<53-1), Flt(-(1 << 53)), Flt(1<<62), Flt(-(1 << 62)), Flt(math.Ldexp(1, 63)), Flt(-math.Ldexp(1, 63)),
		Flt(1), Flt(0.5), Flt(math.NaN()), Flt(math.Inf(1)), Dur(time.Second))
	bb2 := scopes2("a", "b", bigs, bigs, false)
	for _, op := range []string{"==", "!=", "<", "<=", ">", ">=", "+", "-", "*", "/", "%"} {
		runs, _ := longRuns(rnd, len(bb2))
		x.run(kase{n: Bin(op, a, b), entries: bb2, runs: runs, pol: polTyped, family: "big-int"})
	}
	b1 := scopes1("a", bigs)
	for _, n := range []*N{Call("float", a), Call("int", a), Call("int", Call("float", a)), Call("bool", a), Un("-", a), Bin("==", Call("float", a), a), Bin("<", a, Bin("+", a, Lit(Int(1)))),
		Bin("==", a, Lit(Int(9007199254740993))), Bin("<", Lit(Int(math.MaxInt64-1)), a), Bin(">=", Lit(Flt(1<<53)), a), Call("strSubstring", Lit(Str("ab")), Lit(Int(0)), a),
		Call("duration", a, Lit(Dur(time.Nanosecond))), Call("if", Bin(">", a, Lit(Int(0))), a, Lit(Int(0)))} {
		runs, _ := longRuns(rnd, len(b1))
		x.run(kase{n: n, entries: b1, runs: runs[:2], pol: polTyped, family: "big-int"})
	}
	for _, p := range [][2]int64{{9007199254740993, 9007199254740992}, {math.MaxInt64 - 1, math.MaxInt64}, {math.MinInt64, math.MinInt64 + 1}, {1<<62 + 1, 1 << 62}} {
		for _, op := range []string{"==", "!=", "<", "<=", ">", ">=", "-"} {
			x.run(kase{n: Bin(op, Lit(Int(p[0])), Lit(Int(p[1]))), entries: []entry{scopeEntry()}, runs: [][]step{{{0, 'E', 0}, {0, 'T', 0}}, {{0, 0, 0}}}, pol: polTyped, family: "big-int"})
		}
	}

	// ---- O: evaluation order: left before right, right not evaluated after a failing left, for every operator x operand type pair ----
	// firstFails is an int that fails (division by zero) when it is the FIRST call of count() on the expression and is 1 when it is the second
	firstFails := Bin("/", Lit(Int(1)), Bin("-", cnt, Lit(Int(1))))
	failing := map[byte]*N{'i': firstFails, 'f': Call("float", firstFails), 's': Call("string", firstFails), 'b': Bin("==", firstFails, Lit(Int(1))),
		'd': Call("duration", firstFails, Lit(Dur(time.Second)))}
	counting := map[byte]*N{'i': cnt, 'f': Call("float", cnt), 's': Call("string", cnt), 'b': Bin(">", cnt, Lit(Int(0))), 'd': Call("duration", cnt, Lit(Dur(time.Second))),
		'r': Lit(Rex("1"))}
	plusTen := map[byte]*N{'i': Bin("+", cnt, Lit(Int(10))), 'f': Bin("+", Call("float", cnt), Lit(Flt(10))), 's': Bin("+", Call("string", cnt), Lit(Str("x"))),
		'b': Bin("==", cnt, Lit(Int(1))), 'd': Call("duration", Bin("+", cnt, Lit(Int(10))), Lit(Dur(time.Second)))}
	none := []entry{scopeEntry()}
	orderRuns := [][]step{{{0, 'E', 0}, {0, 'E', 0}, {0, 'E', 0}}, {{0, 0, 0}, {0, 0, 0}, {0, 0, 0}}, {{0, 'E', 0}, {0, 'E', 1}, {0, 'E', 0}, {0, 'E', 1}}, {{0, 'B', 0}, {0, 'E', 0}, {0, 'T', 0}, {0, 'E', 0}}}
	for _, ot := range opTable {
		lt, rt := ot.l, ot.r
		x.run(kase{n: Bin(ot.op, failing[lt], counting[rt]), entries: none, runs: orderRuns, pol: polTyped, family: "order"})
		x.run(kase{n: Bin(ot.op, plusTen[lt], counting[rt]), entries: none, runs: orderRuns, pol: polTyped, family: "order"})
	}
	for _, n := range []*N{Call("if", Bin("==", firstFails, Lit(Int(1))), cnt, Lit(Int(0))), Call("min", Call("float", firstFails), Call("float", cnt)),
		Call("strSubstring", Call("string", Bin("+", cnt, Lit(Int(10)))), firstFails, cnt), Call("duration", firstFails, Call("duration", cnt, Lit(Dur(time.Second)))),
		Bin("*", Call("int", Lit(Str("s"))), Call("duration", cnt, Lit(Dur(time.Second)))), Bin("*", Call("float", Lit(Str("s"))), Call("duration", cnt, Lit(Dur(time.Second)))),
		Bin("+", cnt, Bin("*", Bin("+", cnt, Lit(Int(10))), Call("duration", cnt, Lit(Dur(time.Second)))))} {
		x.run(kase{n: n, entries: none, runs: orderRuns, pol: polTyped, family: "order"})
	}

	// ---- L: copy isolation for a nested lambda at every position a lambda reference can occur ----
	lb := func() *N { return Lam(Bin(">", Call("count"), Lit(Int(1)))) }
	li := func() *N { return Lam(Call("count")) }
	ld := func() *N { return Lam(Call("duration", Call("count"), Lit(Dur(time.Second)))) }
	lpos := []*N{
		Un("!", lb()), Un("-", li()), Bin("+", Un("-", li()), a), Call("abs", Call("float", Un("-", li()))), Un("!", Un("!", lb())), Un("-", Un("-", li())),
		Call("if", lb(), Lit(Int(1)), Lit(Int(2))), Call("if", Bin(">", a, Lit(Int(0))), li(), Lit(Int(0))), Call("if", Bin(">", a, Lit(Int(0))), Lit(Int(0)), li()),
		Call("int", li()), Call("string", li()), Call("isPresent", li()), Call("min", Call("float", li()), Lit(Flt(2))), Call("duration", li(), Lit(Dur(time.Second))),
		Call("strSubstring", Lit(Str("abc")), Lit(Int(0)), li()),
		Lam(li()), Lam(Bin("+", li(), Call("count"))), Un("!", Lam(Un("!", lb()))), Lam(Un("-", li())), Bin("AND", lb(), Lam(Un("!", lb()))),
		Lam(Call("spread", a)), Un("-", Lam(Call("sigma", a))), Bin("=~", Lam(Call("string", Call("count"))), Lit(Rex("1"))), Bin("!~", Lam(Call("string", Call("count"))), Lit(Rex("1"))),
		Bin("*", ld(), Lit(Int(2))), Bin("*", Lit(Flt(0.5)), ld()), Bin("/", ld(), ld()), Bin("+", ld(), Lit(Dur(time.Second))),
	}
	for _, op := range []string{"+", "-", "*", "/", "%", "==", "!=", "<", "<=", ">", ">="} {
		lpos = append(lpos, Bin(op, li(), Lit(Int(2))), Bin(op, Lit(Int(2)), li()), Bin(op, li(), a))
	}
	for _, op := range []string{"AND", "OR", "==", "!="} {
		lpos = append(lpos, Bin(op, lb(), Lit(Bool(true))), Bin(op, Lit(Bool(false)), lb()), Bin(op, lb(), lb()))
	}
	la := scopes1("a", []V{Int(2), Flt(2.5), Int(0)})
	for _, n := range lpos {
		x.run(kase{n: n, entries: la, runs: withCopies(histories(2, 4, 'E')), family: "lambda-position"})
		x.run(kase{n: n, entries: la, runs: [][]step{{{0, 'E', 0}, {0, 'E', 1}, {0, 'E', 2}, {0, 'Z', 1}, {0, 'E', 1}, {0, 'E', 0}, {0, 'E', 2}},
			{{0, 0, 0}, {0, 0, 1}, {1, 0, 0}, {1, 0, 1}, {2, 'E', 1}}, {{0, 'T', 0}, {0, 'E', 1}, {0, 'B', 0}, {0, 'E', 0}, {0, 'E', 1}}}, pol: polTyped, family: "lambda-position"})
	}

	// ---- P: EvalPredicate / fillScope: fields, tags, time, missing, field+tag collision ----
	fieldVals := []V{Int(0), Int(2), Flt(0.5), Flt(2), Str("a"), Str("b"), Bool(true), Bool(false)}
	var points []entry
	bind := func(name string, e *entry, how int) {
		switch {
		case how < len(fieldVals):
			e.fields[name] = fieldVals[how]
		case how == len(fieldVals):
			e.tags[name] = "a"
		case how == len(fieldVals)+1:
			e.tags[name] = "2"
		case how == len(fieldVals)+2: // both a field and a tag
			e.fields[name] = Int(2)
			e.tags[name] = "a"
		} // else absent
	}
	nb := len(fieldVals) + 4
	for i := 0; i < nb; i++ {
		for j := 0; j < nb; j++ {
			e := entry{point: true, fields: map[string]V{}, tags: map[string]string{}, tm: 61 * (1 + (i+j)%3)}
			bind("a", &e, i)
			bind("b", &e, j)
			e.fields["unused"] = Int(7)
			points = append(points, e)
		}
	}
	preds := []*N{Bin(">", a, b), Bin("==", a, b), Bin("<=", a, Lit(Flt(1))), Bin("AND", Bin(">", a, Lit(Int(1))), Bin("==", b, Lit(Str("a")))),
		Bin("OR", a, b), Bin("AND", Call("isPresent", a), Bin(">", a, Lit(Flt(0)))), Bin(">=", Call("hour", Ref("time")), Lit(Int(2))),
		Bin("AND", Bin("<", Call("minute", Ref("time")), Lit(Int(3))), Bin("=~", a, Lit(Rex("^a")))), Bin("+", a, b), a, Un("!", a),
		Bin("AND", a, Bin(">", cnt, Lit(Int(1)))), Bin("==", Ref("time"), a), Call("isPresent", Ref("unused"))}
	for _, n := range preds {
		x.run(kase{n: n, entries: points, runs: [][]step{seqRun(rnd.Perm(len(points)), 'P'), seqRun(rnd.Perm(len(points)), 'P')}, family: "predicate"})
	}
	pp := []entry{points[0*nb+1], points[2*nb+3], points[4*nb+8], points[6*nb+6], points[8*nb+11], points[11*nb+0], points[10*nb+1]}
	for _, n := range preds[:6] {
		x.run(kase{n: n, entries: pp, runs: histories(len(pp), 3, 'P'), family: "predicate"})
	}

	// ---- R: seeded random ASTs of depth 3 with random histories ----
	nRandom := 5000
	if thorough {
		nRandom = 30000
	}
	g := &gen{r: rnd}
	for i := 0; i < nRandom; i++ {
		n := g.node(3)
		refs := n.Refs()
		var es []entry
		ne := 5 + rnd.Intn(4)
		for j := 0; j < ne; j++ {
			e := scopeEntry()
			for _, name := range refs {
				switch {
				case name == "time":
					e.scope[name] = Tim(rnd.Intn(200))
				case rnd.Intn(25) == 0: // undefined
				default:
					e.scope[name] = domain[rnd.Intn(len(domain))]
				}
			}
			es = append(es, e)
		}
		var runs [][]step
		for q := 0; q < 2; q++ {
			run := []step{}
			for j := 0; j < 6+rnd.Intn(5); j++ {
				s := step{k: rnd.Intn(ne), mode: scalarModes[rnd.Intn(len(scalarModes))], cp: rnd.Intn(3)}
				if rnd.Intn(3) > 0 {
					s.mode = 'E'
				}
				if rnd.Intn(20) == 0 {
					s.mode = 'Z'
				}
				run = append(run, s)
			}
			runs = append(runs, run)
		}
		x.run(kase{n: n, entries: es, runs: runs, family: "random-depth3"})
	}

	r.Extra["value_domain"] = len(domain)
	r.Extra["random_depth3_asts"] = nRandom
	x.finish("every binary operator over all pairs of the value domain (26 values + undefined) and over literal operands; unary operators; the modelled built-ins over their argument domains; "+
		"every history of scope typings of length <= 2 (6 types per reference) and <= 3 (4 types) on ONE compiled expression through Eval, the matching typed Eval*, Type and EvalBool; "+
		"depth-2 ASTs (two caches, cache under unary/call/comparison/static node) over all typing histories <= 2; stateful functions and nested lambdas with every assignment of the steps to CopyReset copies, and Reset; "+
		"EvalPredicate over points (fields, tags, time, missing, field/tag collision); seeded random depth-3 ASTs with random histories. Every expression is compiled both from ast.Node values and from parsed text. "+
		"non-trivial = expression of depth >= 1 with at least one evaluated history, distinct by family and expression", false)
	return nil
}

// convStrings are the classes of the conversion grammars: int(string) is decimal only (strconv.ParseInt base 10), float(string) is Go's
// floating-point literal syntax (strconv.ParseFloat), bool(string) is strconv.ParseBool's literal set, duration(string, unit) is
// influxql.ParseDuration.
var convStrings = []string{
	// integers: plain, signed, leading zeros, base prefixes, underscores, blanks, exponent/fraction, empty, int64 boundaries
	"0", "7", "42", "-7", "+5", "010", "-0012", "+007", "00", "017", "0x1F", "0X1f", "0b101", "0o17", "1_000", "1__0", "_1", "1_", " 5", "5 ", "\t5", "5\n",
	"1e3", "2.5", "", "-", "+", "--5", "+-5", "5-", "12a", "a12", "999999999", "1000000000", "9223372036854775807", "9223372036854775808",
	"-9223372036854775808", "-9223372036854775809", "99999999999999999999", "0000000000000000000005",
	// floats: fraction, exponent, hex, underscores, specials, range
	"-1.5", "+0.25", ".5", "5.", ".", "1E3", "1e+2", "1e-2", "2.5e1", "e3", "1e", "1e+", "1.2.3", "0.1", "0.125", "1e400", "-1e400", "1e-400", "1e309",
	"0x1p-2", "0X1P+1", "0x1.8p1", "0x1", "0x.8p0", "0x1p", "-0x1p-1", "0x1e2", "0x1p2000", "1_0.5", "1_.5", "1e3_0", "0x_1p0", "0x1_0p0",
	"inf", "Inf", "+INF", "-infinity", "Infinity", "infinit", "infi", "nan", "NaN", "+nan", "-nan", " 1", "1 ", "1f", "1p2", "1,5", "-0",
	// booleans
	"1", "t", "T", "TRUE", "true", "True", "f", "F", "FALSE", "false", "False", "tRUE", "yes", "no", "on", " true", "true ", "TrUe", "2",
	// durations
	"1s", "-5s", "10ms", "1h30m", "1w", "2w", "2d", "5u", "5µ", "5us", "7ns", "5n", "s", "-s", "1.5s", "1s ", " 1s", "+1s", "1m5", "1ms2s", "01s", "1S", "1y",
	"9223372036854775807ns", "9223372036854775808ns", "106752d", "1_0s", "1hh", "1h-5m", "--1s", "0s", "00ms", "1 s", "0u", "9999w9999w",
}

// opTable is the operator x operand type table of the evaluator (the 61 entries of evaluationFuncs).
type opEntry struct {
	op   string
	l, r byte
}

var opTable = func() []opEntry {
	var t []opEntry
	add := func(ops []string, pairs ...string) {
		for _, op := range ops {
			for _, p := range pairs {
				t = append(t, opEntry{op, p[0], p[1]})
			}
		}
	}
	add([]string{"AND", "OR"}, "bb")
	add([]string{"==", "!="}, "bb", "dd", "ff", "fi", "if", "ii", "ss")
	add([]string{"<", "<=", ">", ">="}, "dd", "ff", "fi", "if", "ii", "ss")
	add([]string{"=~", "!~"}, "sr")
	add([]string{"+"}, "dd", "ff", "ii", "ss")
	add([]string{"-"}, "dd", "ff", "ii")
	add([]string{"*"}, "df", "di", "fd", "ff", "id", "ii")
	add([]string{"/"}, "dd", "df", "di", "ff", "ii")
	add([]string{"%"}, "ii")
	return t
}()

// gen draws random ASTs over the model's alphabet.
type gen struct{ r *rand.Rand }

func (g *gen) leaf() *N {
	switch x := g.r.Intn(10); {
	case x < 5:
		return Ref([]string{"a", "b", "c"}[g.r.Intn(3)])
	case x == 5:
		return Lit(Rex([]string{"a", "^a", "b$", "^$"}[g.r.Intn(4)]))
	case x == 6 && g.r.Intn(2) == 0:
		return Lit(Str(convLits[g.r.Intn(len(convLits))]))
	default:
		for {
			v := domain[g.r.Intn(len(domain))]
			if v.T != 'm' && v.T != 't' && !v.special() {
				return Lit(v)
			}
		}
	}
}

var convLits = []string{"010", "-0012", "+5", "0x1F", "1_000", "2.5", "1e3", " 5", "T", "yes", "1h30m", "10ms", "0x1p-2", "inf", ".5"}

var fun1 = []string{"int", "float", "bool", "string", "abs", "floor", "ceil", "trunc", "strLength", "strToUpper", "strTrimSpace", "isPresent", "spread", "sigma", "duration"}
var fun2 = []string{"min", "max", "mod", "strContains", "strHasPrefix", "strIndex", "strTrimSuffix", "strCount", "strTrim", "strIndexAny", "duration"}

func (g *gen) node(depth int) *N {
	if depth == 0 || g.r.Intn(6) == 0 {
		return g.leaf()
	}
	switch x := g.r.Intn(20); {
	case x < 11:
		return Bin(allOps[g.r.Intn(len(allOps))], g.node(depth-1), g.node(depth-1))
	case x < 13:
		return Un([]string{"-", "!"}[g.r.Intn(2)], g.node(depth-1))
	case x < 15:
		return Call(fun1[g.r.Intn(len(fun1))], g.node(depth-1))
	case x == 15:
		return Call(fun2[g.r.Intn(len(fun2))], g.node(depth-1), g.node(depth-1))
	case x == 16:
		return Call("if", g.node(depth-1), g.node(depth-1), g.node(depth-1))
	case x == 17:
		return Call("count")
	case x == 18:
		return Call("strSubstring", g.node(depth-1), g.node(depth-1), g.node(depth-1))
	default:
		return Lam(g.node(depth - 1))
	}
}
