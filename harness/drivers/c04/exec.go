package c04

import (
	"fmt"
	"sort"
	"time"

	"github.com/influxdata/kapacitor"
	"github.com/influxdata/kapacitor/models"
	"github.com/influxdata/kapacitor/tick/ast"
	"github.com/influxdata/kapacitor/tick/stateful"

	"kapverif/rt"
)

// entry is one input of a case: a scope (name -> value; absent = undefined) or a point.
type entry struct {
	point  bool
	scope  map[string]V
	fields map[string]V
	tags   map[string]string
	tm     int
}

func scopeEntry(kv ...any) entry {
	e := entry{scope: map[string]V{}}
	for i := 0; i < len(kv); i += 2 {
		e.scope[kv[i].(string)] = kv[i+1].(V)
	}
	return e
}

func encVals(m map[string]V) rt.M {
	o := rt.M{}
	for k, v := range m {
		o[k] = v.Enc()
	}
	return o
}

func (e entry) Enc() any {
	if !e.point {
		return rt.M{"v": encVals(e.scope)}
	}
	g := rt.M{}
	for k, v := range e.tags {
		g[k] = encStr(v)
	}
	return rt.M{"f": encVals(e.fields), "g": g, "t": e.tm}
}

// pt implements edge.FieldsTagsTimeGetter.
type pt struct {
	f models.Fields
	g models.Tags
	t time.Time
}

func (p pt) Fields() models.Fields { return p.f }
func (p pt) Tags() models.Tags     { return p.g }
func (p pt) Time() time.Time       { return p.t }

// step is one API call: input k, mode (E T I F S B D P Z), copy (0 = the compiled expression,
// 1, 2 = its CopyReset copies).
type step struct {
	k    int
	mode byte
	cp   int
}

// policy chooses the mode of each step of a run when the enumeration does not fix it.
type policy int

const (
	polFixed policy = iota // modes given in the steps
	polTyped               // the typed call that matches what Type() of a fresh expression reports
)

type kase struct {
	n       *N
	entries []entry
	runs    [][]step
	pol     policy
	family  string
}

// executor runs cases against the real code and spreads the lines over several trace files so that
// TLC can validate them in parallel (balanced by number of steps).
type executor struct {
	r            *rt.Run
	files        []*rt.Trace
	load         []int
	cases        int
	steps        int
	cerrs        int
	nruns        int
	unparsable   int
	unparsableEx []string
	errs         map[string]int
	fams         map[string]int
	outcomes     map[string]int
}

func newExecutor(r *rt.Run, nfiles int) *executor {
	x := &executor{r: r, errs: map[string]int{}, fams: map[string]int{}, outcomes: map[string]int{}}
	for i := 0; i < nfiles; i++ {
		x.files = append(x.files, r.NewTrace(fmt.Sprintf("trace%02d", i)))
		x.load = append(x.load, 0)
	}
	return x
}

func (x *executor) pick() int {
	best := 0
	for i := range x.load {
		if x.load[i] < x.load[best] {
			best = i
		}
	}
	return best
}

type compiled struct {
	ex   [3]stateful.Expression
	pool stateful.ScopePool
}

func compile(node ast.Node) (*compiled, error) {
	e, err := stateful.NewExpression(node)
	if err != nil {
		return nil, err
	}
	c := &compiled{}
	c.ex[0] = e
	c.ex[1] = e.CopyReset()
	c.ex[2] = e.CopyReset()
	c.pool = stateful.NewScopePool(ast.FindReferenceVariables(node))
	return c, nil
}

const maxStatefulRun = 24

var typedModes = []byte{'I', 'F', 'S', 'B', 'D'}

func modeOfType(t ast.ValueType) byte {
	switch t {
	case ast.TInt:
		return 'I'
	case ast.TFloat:
		return 'F'
	case ast.TString:
		return 'S'
	case ast.TBool:
		return 'B'
	case ast.TDuration:
		return 'D'
	}
	return 0
}

// call performs one API call and encodes the outcome.
func call(c *compiled, s step, e entry, sc *stateful.Scope) (out any) {
	defer func() {
		if p := recover(); p != nil {
			// a panic escaping the API is not an evaluation error: the specification accepts this outcome for no call
			out = []any{"X", "panic"}
		}
	}()
	ex := c.ex[s.cp]
	fail := func(err error) any { return []any{"E", errClass(err)} }
	switch s.mode {
	case 'Z':
		ex.Reset()
		return []any{"Z"}
	case 'T':
		t, err := ex.Type(sc)
		if err != nil {
			return fail(err)
		}
		return []any{"T", typeTag(t)}
	case 'E':
		v, err := ex.Eval(sc)
		if err != nil {
			return fail(err)
		}
		return EncGo(v)
	case 'I':
		v, err := ex.EvalInt(sc)
		if err != nil {
			return fail(err)
		}
		return EncGo(v)
	case 'F':
		v, err := ex.EvalFloat(sc)
		if err != nil {
			return fail(err)
		}
		return EncGo(v)
	case 'S':
		v, err := ex.EvalString(sc)
		if err != nil {
			return fail(err)
		}
		return EncGo(v)
	case 'B':
		v, err := ex.EvalBool(sc)
		if err != nil {
			return fail(err)
		}
		return EncGo(v)
	case 'D':
		v, err := ex.EvalDuration(sc)
		if err != nil {
			return fail(err)
		}
		return EncGo(v)
	case 'P':
		p := pt{f: models.Fields{}, g: models.Tags{}, t: Base.Add(time.Duration(e.tm) * time.Minute)}
		for k, v := range e.fields {
			p.f[k] = v.Go()
		}
		for k, v := range e.tags {
			p.g[k] = v
		}
		v, err := kapacitor.EvalPredicate(ex, c.pool, p)
		if err != nil {
			return fail(err)
		}
		return EncGo(v)
	}
	panic("bad mode")
}

func outKey(o any) string {
	a := o.([]any)
	if a[0] == "E" {
		return "E:" + a[1].(string)
	}
	if a[0] == "T" {
		return "T"
	}
	return a[0].(string)
}

// run executes one case and writes its line.
func (x *executor) run(k kase) {
	x.cases++
	x.fams[k.family]++
	line := rt.M{"x": k.n.Enc(), "txt": k.n.Show(), "fam": k.family}
	scs := make([]any, len(k.entries))
	scopes := make([]*stateful.Scope, len(k.entries))
	for i, e := range k.entries {
		scs[i] = e.Enc()
		if !e.point {
			sc := stateful.NewScope()
			for name, v := range e.scope {
				sc.Set(name, v.Go())
			}
			scopes[i] = sc
		}
	}
	line["sc"] = scs
	built := k.n.Ast()
	parsed, perr := k.n.Parsed()
	if perr != nil {
		// the text form is not accepted by the parser (e.g. a regex literal where the lexer expects an operator):
		// only the built nodes are evaluated
		x.unparsable++
		if len(x.unparsableEx) < 12 {
			x.unparsableEx = append(x.unparsableEx, k.n.Show()+" :: "+perr.Error())
		}
		parsed = built
	}
	if _, err := compile(built); err != nil {
		if _, err2 := compile(parsed); err2 == nil {
			rt.Fatalf("c04: %q compiles from text but not as built nodes: %v", k.n.Show(), err)
		}
		x.cerrs++
		line["nocompile"] = errClass(err)
		line["runs"] = []any{}
		f := x.pick()
		x.load[f]++
		x.files[f].Reset(line)
		return
	}
	if _, err := compile(parsed); err != nil {
		rt.Fatalf("c04: %q compiles as built nodes but not from text: %v", k.n.Show(), err)
	}
	if k.n.hasStateful() {
		// the specification follows the function state step by step (recursively): keep such runs short
		var short [][]step
		for _, run := range k.runs {
			for len(run) > maxStatefulRun {
				short = append(short, run[:maxStatefulRun])
				run = run[maxStatefulRun:]
			}
			short = append(short, run)
		}
		k.runs = short
	}
	runs := make([]any, len(k.runs))
	n := 0
	for ri, steps := range k.runs {
		// every run starts from a fresh compilation; even runs use the nodes as built, odd runs the parsed text
		node := built
		if ri%2 == 1 {
			node = parsed
		}
		c, _ := compile(node)
		var probe *compiled
		out := make([]any, len(steps))
		for si, s := range steps {
			e := k.entries[s.k]
			if k.pol == polTyped && s.mode == 0 {
				// the typed call a caller would make for this input: ask a scratch expression for the type
				if probe == nil {
					probe, _ = compile(node)
				}
				s.mode = 0
				if !e.point {
					if t, err := probe.ex[0].Type(scopes[s.k]); err == nil {
						s.mode = modeOfType(t)
					}
				}
				if s.mode == 0 {
					s.mode = typedModes[(ri+si)%len(typedModes)]
				}
			}
			if e.point != (s.mode == 'P') && s.mode != 'Z' {
				rt.Fatalf("c04: mode %c on the wrong kind of input", s.mode)
			}
			o := call(c, s, e, scopes[s.k])
			out[si] = []any{s.k + 1, string(s.mode), s.cp, o}
			x.outcomes[outKey(o)]++
			n++
		}
		runs[ri] = out
	}
	line["runs"] = runs
	x.steps += n
	x.nruns += len(k.runs)
	f := x.pick()
	if x.cases <= 3 {
		f = 0
	} else if x.cases == 4 {
		f = 1
	}
	x.load[f] += n + 5
	x.files[f].Reset(line)
	if k.n.Depth() >= 1 && len(k.runs) > 0 {
		x.files[f].Distinct(k.family + "|" + k.n.Show())
	}
}

func (x *executor) finish(rule string, exhaustive bool) {
	x.r.Extra["cases"] = x.cases
	x.r.Extra["api_calls"] = x.steps
	x.r.Extra["histories"] = x.nruns
	x.r.Extra["compile_errors"] = x.cerrs
	x.r.Extra["text_form_not_parsable"] = x.unparsable
	x.r.Extra["text_form_not_parsable_examples"] = x.unparsableEx
	x.r.Extra["cases_per_family"] = x.fams
	keys := make([]string, 0, len(x.outcomes))
	for k := range x.outcomes {
		keys = append(keys, k)
	}
	sort.Strings(keys)
	oc := rt.M{}
	for _, k := range keys {
		oc[k] = x.outcomes[k]
	}
	x.r.Extra["outcome_classes"] = oc
	other := []string{}
	for m := range otherErrors {
		other = append(other, m)
	}
	sort.Strings(other)
	x.r.Extra["unclassified_error_examples"] = other
	x.r.Finish(rule, exhaustive)
}
