// Package c04 drives real stateful.Expression values for property C04 (lambda evaluation semantics):
// it enumerates ASTs over the model's alphabet, builds them as ast.Node values and from parsed text,
// evaluates sequences of scopes on ONE compiled expression (and its CopyReset copies) and records
// every outcome in the encoding of spec/Lambda/LambdaRef.tla.
package c04

import (
	"fmt"
	"math"
	"math/big"
	"regexp"
	"strconv"
	"strings"
	"time"

	"github.com/influxdata/kapacitor/tick/ast"
	"github.com/influxdata/kapacitor/tick/stateful"
)

// V is a model value: 'i' int, 'f' float, 's' string, 'b' bool, 'd' duration, 't' time (minutes after
// Base), 'm' missing, 'r' regex (by pattern).
type V struct {
	T  byte
	I  int64
	F  float64
	S  string
	B  bool
	D  time.Duration
	Tm int
}

// Base is a midnight (UTC): model time k is Base + k minutes.
var Base = time.Date(2000, 1, 3, 0, 0, 0, 0, time.UTC)

func Int(i int64) V         { return V{T: 'i', I: i} }
func Flt(f float64) V       { return V{T: 'f', F: f} }
func Str(s string) V        { return V{T: 's', S: s} }
func Bool(b bool) V         { return V{T: 'b', B: b} }
func Dur(d time.Duration) V { return V{T: 'd', D: d} }
func Tim(k int) V           { return V{T: 't', Tm: k} }
func Rex(p string) V        { return V{T: 'r', S: p} }

var Missing = V{T: 'm'}

var regexes = map[string]*regexp.Regexp{}

func regex(p string) *regexp.Regexp {
	if r, ok := regexes[p]; ok {
		return r
	}
	r := regexp.MustCompile(p)
	regexes[p] = r
	return r
}

// Go returns the value as the evaluator sees it in a scope.
func (v V) Go() interface{} {
	switch v.T {
	case 'i':
		return v.I
	case 'f':
		return v.F
	case 's':
		return v.S
	case 'b':
		return v.B
	case 'd':
		return v.D
	case 't':
		return Base.Add(time.Duration(v.Tm) * time.Minute)
	case 'm':
		return ast.MissingValue
	case 'r':
		return regex(v.S)
	}
	panic("bad value")
}

func (v V) Enc() any { return EncGo(v.Go()) }

const small = 1 << 30

func encStr(s string) any {
	b := make([]any, len(s))
	for i := 0; i < len(s); i++ {
		b[i] = int(s[i])
	}
	return []any{"s", b}
}

// EncGo encodes a Go value returned by (or given to) the evaluator.  Values outside the model's exact
// domain are encoded as ["?", type, text]: the specification only checks their type (and that equal
// histories give equal text).
func EncGo(x interface{}) any {
	switch v := x.(type) {
	case int64:
		if v > -small && v < small {
			return []any{"i", int(v)}
		}
		// an int64 in the neighbourhood of +-2^53, +-2^62, +-2^63: base + small offset
		for _, bb := range []struct {
			name string
			at   int64 // the base (2^63 itself does not fit: MaxInt64 with offset -1)
			adj  int64
		}{{"p53", 1 << 53, 0}, {"n53", -(1 << 53), 0}, {"p62", 1 << 62, 0}, {"n62", -(1 << 62), 0}, {"p63", math.MaxInt64, -1}, {"n63", math.MinInt64, 0}} {
			d := new(big.Int).Sub(big.NewInt(v), big.NewInt(bb.at))
			if d.IsInt64() && d.Int64() >= -64 && d.Int64() <= 64 {
				return []any{"I", bb.name, int(d.Int64() + bb.adj)}
			}
		}
		return []any{"?", "i", strconv.FormatInt(v, 10)}
	case float64:
		switch {
		case math.IsNaN(v):
			return []any{"F", "nan"}
		case math.IsInf(v, 1):
			return []any{"F", "+inf"}
		case math.IsInf(v, -1):
			return []any{"F", "-inf"}
		case v == 0 && math.Signbit(v):
			return []any{"F", "-0"}
		}
		if math.Abs(v) >= small && v == math.Trunc(v) {
			// a float64 whose value is exactly base + small offset
			for _, bb := range []struct {
				name string
				exp  uint
				neg  bool
			}{{"p53", 53, false}, {"n53", 53, true}, {"p62", 62, false}, {"n62", 62, true}, {"p63", 63, false}, {"n63", 63, true}} {
				base := new(big.Int).Lsh(big.NewInt(1), bb.exp)
				if bb.neg {
					base.Neg(base)
				}
				bf, _ := new(big.Float).SetFloat64(v).Int(nil)
				d := new(big.Int).Sub(bf, base)
				if d.IsInt64() && d.Int64() >= -64 && d.Int64() <= 64 {
					return []any{"G", bb.name, int(d.Int64())}
				}
			}
		}
		if !math.IsInf(v, 0) && !math.IsNaN(v) {
			r := new(big.Rat).SetFloat64(v)
			if r.Num().IsInt64() && r.Denom().IsInt64() {
				n, d := r.Num().Int64(), r.Denom().Int64()
				if n > -small && n < small && d < small {
					return []any{"f", int(n), int(d)}
				}
			}
		}
		return []any{"?", "f", strconv.FormatFloat(v, 'g', -1, 64)}
	case string:
		if len(v) <= 64 {
			return encStr(v)
		}
		return []any{"?", "s", v}
	case bool:
		return []any{"b", v}
	case time.Duration:
		if v%time.Millisecond == 0 && v/time.Millisecond > -small && v/time.Millisecond < small {
			return []any{"d", int(v / time.Millisecond)}
		}
		return []any{"?", "d", v.String()}
	case time.Time:
		d := v.Sub(Base)
		if d%time.Minute == 0 && d >= 0 && d/time.Minute < small {
			return []any{"t", int(d / time.Minute)}
		}
		return []any{"?", "t", v.UTC().Format(time.RFC3339Nano)}
	case *ast.Missing:
		return []any{"m"}
	case *regexp.Regexp:
		return []any{"r", v.String()}
	case nil:
		return []any{"?", "nil", ""}
	}
	return []any{"?", fmt.Sprintf("%T", x), ""}
}

func typeTag(t ast.ValueType) string {
	switch t {
	case ast.TInt:
		return "i"
	case ast.TFloat:
		return "f"
	case ast.TString:
		return "s"
	case ast.TBool:
		return "b"
	case ast.TDuration:
		return "d"
	case ast.TTime:
		return "t"
	case ast.TRegex:
		return "r"
	case ast.TMissing:
		return "m"
	}
	return "inv"
}

// errClass maps an evaluation error to a coarse class (never the message text).
func errClass(err error) string {
	if _, ok := err.(stateful.ErrTypeGuardFailed); ok {
		return "guard"
	}
	m := err.Error()
	switch {
	case strings.Contains(m, "runtime error"):
		return "arith"
	case strings.Contains(m, "TypeGuard"):
		return "guard"
	case strings.Contains(m, "is undefined"):
		return "undefined"
	case strings.Contains(m, "missing"):
		return "missing"
	case strings.Contains(m, "mismatched type") || strings.Contains(m, "operator"):
		return "mismatch"
	case strings.Contains(m, "Cannot call function") || strings.Contains(m, "undefined function") || strings.Contains(m, "too many arguments"):
		return "signature"
	case strings.Contains(m, "error calling"):
		return "call"
	case strings.Contains(m, "unexpected type"):
		return "type"
	case strings.Contains(m, "field and tags"):
		return "collision"
	}
	if len(otherErrors) < 8 {
		otherErrors[m] = true
	}
	return "other"
}

// otherErrors keeps a few messages of errors that fall in no class (information for the evidence only).
var otherErrors = map[string]bool{}

// N is an AST node in the model's shape: 'L' literal, 'R' reference, 'U' unary, 'B' binary, 'F' call,
// 'X' nested lambda.
type N struct {
	K    byte
	Op   string // operator ('U','B'), reference name ('R'), function name ('F')
	Val  V
	Kids []*N
}

func Lit(v V) *N                { return &N{K: 'L', Val: v} }
func Ref(name string) *N        { return &N{K: 'R', Op: name} }
func Un(op string, n *N) *N     { return &N{K: 'U', Op: op, Kids: []*N{n}} }
func Bin(op string, l, r *N) *N { return &N{K: 'B', Op: op, Kids: []*N{l, r}} }
func Call(f string, a ...*N) *N { return &N{K: 'F', Op: f, Kids: a} }
func Lam(n *N) *N               { return &N{K: 'X', Kids: []*N{n}} }

func (n *N) Enc() any {
	switch n.K {
	case 'L':
		return []any{"L", n.Val.Enc()}
	case 'R':
		return []any{"R", n.Op}
	case 'U':
		return []any{"U", n.Op, n.Kids[0].Enc()}
	case 'B':
		return []any{"B", n.Op, n.Kids[0].Enc(), n.Kids[1].Enc()}
	case 'F':
		args := make([]any, len(n.Kids))
		for i, k := range n.Kids {
			args[i] = k.Enc()
		}
		return []any{"F", n.Op, args}
	case 'X':
		return []any{"X", n.Kids[0].Enc()}
	}
	panic("bad node")
}

var tokens = map[string]ast.TokenType{
	"+": ast.TokenPlus, "-": ast.TokenMinus, "*": ast.TokenMult, "/": ast.TokenDiv, "%": ast.TokenMod,
	"==": ast.TokenEqual, "!=": ast.TokenNotEqual, "<": ast.TokenLess, "<=": ast.TokenLessEqual,
	">": ast.TokenGreater, ">=": ast.TokenGreaterEqual, "=~": ast.TokenRegexEqual, "!~": ast.TokenRegexNotEqual,
	"AND": ast.TokenAnd, "OR": ast.TokenOr, "!": ast.TokenNot,
}

// Ast builds the expression as ast.Node values.
func (n *N) Ast() ast.Node {
	switch n.K {
	case 'L':
		switch n.Val.T {
		case 'i':
			return &ast.NumberNode{IsInt: true, Int64: n.Val.I}
		case 'f':
			return &ast.NumberNode{IsFloat: true, Float64: n.Val.F}
		case 's':
			return &ast.StringNode{Literal: n.Val.S}
		case 'b':
			return &ast.BoolNode{Bool: n.Val.B}
		case 'd':
			return &ast.DurationNode{Dur: n.Val.D}
		case 'r':
			return &ast.RegexNode{Regex: regex(n.Val.S)}
		}
	case 'R':
		return &ast.ReferenceNode{Reference: n.Op}
	case 'U':
		return &ast.UnaryNode{Operator: tokens[n.Op], Node: n.Kids[0].Ast()}
	case 'B':
		return &ast.BinaryNode{Operator: tokens[n.Op], Left: n.Kids[0].Ast(), Right: n.Kids[1].Ast()}
	case 'F':
		args := make([]ast.Node, len(n.Kids))
		for i, k := range n.Kids {
			args[i] = k.Ast()
		}
		return &ast.FunctionNode{Type: ast.GlobalFunc, Func: n.Op, Args: args}
	case 'X':
		return &ast.LambdaNode{Expression: n.Kids[0].Ast()}
	}
	panic("bad node")
}

// Text renders the expression as TICKscript lambda text, nested operators fully parenthesised.
// A nested lambda has no text form of its own (it comes from a variable): its body is rendered
// and Parsed() wraps it again.
func (n *N) Text() string {
	switch n.K {
	case 'L':
		switch n.Val.T {
		case 'i':
			return strconv.FormatInt(n.Val.I, 10)
		case 'f':
			s := strconv.FormatFloat(n.Val.F, 'f', -1, 64)
			if !strings.Contains(s, ".") {
				s += ".0"
			}
			return s
		case 's':
			return "'" + n.Val.S + "'"
		case 'b':
			if n.Val.B {
				return "TRUE"
			}
			return "FALSE"
		case 'd':
			return strconv.FormatInt(int64(n.Val.D/time.Millisecond), 10) + "ms"
		case 'r':
			return "/" + n.Val.S + "/"
		}
	case 'R':
		return `"` + n.Op + `"`
	case 'U':
		return n.Op + n.Kids[0].operand()
	case 'B':
		return n.Kids[0].operand() + " " + n.Op + " " + n.Kids[1].operand()
	case 'F':
		args := make([]string, len(n.Kids))
		for i, k := range n.Kids {
			args[i] = k.Text()
		}
		return n.Op + "(" + strings.Join(args, ", ") + ")"
	case 'X':
		return "\x00" + n.Kids[0].Text() + "\x01" // replaced by Parsed()
	}
	panic("bad node")
}

func (n *N) operand() string {
	if n.K == 'B' || n.K == 'X' {
		return "(" + n.Text() + ")"
	}
	if t := n.Text(); n.K == 'L' && strings.HasPrefix(t, "-") {
		return "(" + t + ")"
	}
	return n.Text()
}

// Parsed builds the expression by parsing its text form with ast.ParseLambda; nested lambdas are
// parsed separately and wrapped into LambdaNodes (as tick.resolveIdents does for lambda variables).
func (n *N) Parsed() (ast.Node, error) {
	switch n.K {
	case 'X':
		inner, err := n.Kids[0].Parsed()
		if err != nil {
			return nil, err
		}
		return &ast.LambdaNode{Expression: inner}, nil
	}
	if !n.hasLambda() {
		l, err := ast.ParseLambda(n.Text())
		if err != nil {
			return nil, err
		}
		return l.Expression, nil
	}
	// a lambda below: parse the children separately and assemble this node by hand
	kids := make([]ast.Node, len(n.Kids))
	for i, k := range n.Kids {
		p, err := k.Parsed()
		if err != nil {
			return nil, err
		}
		kids[i] = p
	}
	switch n.K {
	case 'U':
		return &ast.UnaryNode{Operator: tokens[n.Op], Node: kids[0]}, nil
	case 'B':
		return &ast.BinaryNode{Operator: tokens[n.Op], Left: kids[0], Right: kids[1]}, nil
	case 'F':
		return &ast.FunctionNode{Type: ast.GlobalFunc, Func: n.Op, Args: kids}, nil
	}
	panic("bad node")
}

func (n *N) hasLambda() bool {
	if n.K == 'X' {
		return true
	}
	for _, k := range n.Kids {
		if k.hasLambda() {
			return true
		}
	}
	return false
}

// Show is a readable form for samples and distinct keys.
func (n *N) Show() string {
	s := n.Text()
	s = strings.ReplaceAll(s, "\x00", "lambda{")
	return strings.ReplaceAll(s, "\x01", "}")
}

func (n *N) refs(set map[string]bool) {
	if n.K == 'R' {
		set[n.Op] = true
	}
	for _, k := range n.Kids {
		k.refs(set)
	}
}

// Refs returns the referenced names, sorted.
func (n *N) Refs() []string {
	set := map[string]bool{}
	n.refs(set)
	out := make([]string, 0, len(set))
	for _, name := range []string{"a", "b", "c", "time"} {
		if set[name] {
			out = append(out, name)
			delete(set, name)
		}
	}
	for name := range set {
		out = append(out, name)
	}
	return out
}

func (n *N) Depth() int {
	d := 0
	for _, k := range n.Kids {
		if x := k.Depth() + 1; x > d {
			d = x
		}
	}
	return d
}

func (n *N) hasStateful() bool {
	if n.K == 'F' && (n.Op == "count" || n.Op == "spread" || n.Op == "sigma") {
		return true
	}
	for _, k := range n.Kids {
		if k.hasStateful() {
			return true
		}
	}
	return false
}

// special reports a float64 without a literal form: NaN, an infinity or negative zero.
func (v V) special() bool {
	return v.T == 'f' && (math.IsNaN(v.F) || math.IsInf(v.F, 0) || (v.F == 0 && math.Signbit(v.F)))
}
