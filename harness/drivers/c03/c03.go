// Package c03 drives the real window node (window.go) inside a real stream
// task and records, per group, the points the group received and the batches a
// log() sink directly below the window saw (DESIGN.md C03).
//
//	stream|from().measurement('m').groupBy('g')|window()...|log().prefix('w')
//
// One task carries many groups at once; every group has its own input
// sequence, the groups' points are interleaved on the way in, and the sink is
// demultiplexed by group afterwards, so one trace (Reset, Point.., End) is the
// life of ONE group's window on the real node.
package c03

import (
	"fmt"
	"math/rand"
	"sort"
	"strings"
	"time"

	imodels "github.com/influxdata/influxdb/models"
	"github.com/influxdata/kapacitor"
	"github.com/influxdata/kapacitor/edge"

	"kapverif/rt"
)

// Cfg is a window configuration in model units (seconds / counts).
type Cfg struct {
	Count bool // periodCount/everyCount instead of period/every
	P, E  int
	Align bool
	Fill  bool
}

func (c Cfg) String() string {
	k := "t"
	if c.Count {
		k = "c"
	}
	return fmt.Sprintf("%s%d/%d/%v/%v", k, c.P, c.E, c.Align, c.Fill)
}

// Script is the TICKscript of the task under test.
func Script(c Cfg) string {
	var w strings.Builder
	w.WriteString("|window()")
	if c.Count {
		fmt.Fprintf(&w, ".periodCount(%d).everyCount(%d)", c.P, c.E)
	} else {
		fmt.Fprintf(&w, ".period(%ds)", c.P)
		if c.E > 0 {
			fmt.Fprintf(&w, ".every(%ds)", c.E)
		}
		if c.Align {
			w.WriteString(".align()")
		}
	}
	if c.Fill {
		w.WriteString(".fillPeriod()")
	}
	return "stream\n    |from().measurement('m').groupBy('g')\n    " + w.String() + "\n    |log().prefix('w')\n"
}

// Job is one task run: a configuration and the input sequence of every group.
type Job struct {
	Kind   string // enum | rand | cover | count
	Label  string // cover: the ring branch this input was derived for
	Cfg    Cfg
	Groups [][]int // times per group, non-decreasing
	Mode   int     // 0 round robin by position, 1 seeded random merge, 2 stable sort by time
	Idx    int     // global job number (seeds the merge)
	// Kind "delete": the points of every phase in write order; between two phases the
	// driver waits until every group has been deleted at the window node (delete.go)
	Phases [][]DelWrite
}

type ref struct{ g, i int }

// order interleaves the groups' points; each group's own order is preserved.
func (j *Job) order(seed int64) []ref {
	total := 0
	maxLen := 0
	for _, g := range j.Groups {
		total += len(g)
		if len(g) > maxLen {
			maxLen = len(g)
		}
	}
	out := make([]ref, 0, total)
	switch j.Mode {
	case 1:
		rnd := rand.New(rand.NewSource(seed*1000003 + int64(j.Idx)))
		next := make([]int, len(j.Groups))
		live := make([]int, 0, len(j.Groups))
		for g := range j.Groups {
			if len(j.Groups[g]) > 0 {
				live = append(live, g)
			}
		}
		for len(live) > 0 {
			k := rnd.Intn(len(live))
			g := live[k]
			out = append(out, ref{g, next[g]})
			next[g]++
			if next[g] == len(j.Groups[g]) {
				live[k] = live[len(live)-1]
				live = live[:len(live)-1]
			}
		}
	case 2:
		for g := range j.Groups {
			for i := range j.Groups[g] {
				out = append(out, ref{g, i})
			}
		}
		sort.SliceStable(out, func(a, b int) bool {
			return j.Groups[out[a].g][out[a].i] < j.Groups[out[b].g][out[b].i]
		})
	default:
		for i := 0; i < maxLen; i++ {
			for g := range j.Groups {
				if i < len(j.Groups[g]) {
					out = append(out, ref{g, i})
				}
			}
		}
	}
	return out
}

// worker owns one assembled TaskMaster and one trace file per trace specification.
type worker struct {
	env   *rt.Env
	tt    *rt.Trace // time windows  -> WindowTrace
	tc    *rt.Trace // count windows -> WindowCountTrace
	seed  int64
	tasks int
	pts   int
	// delete jobs: traces written, task attempts thrown away as inconclusive (timing guard)
	delTraces    int
	inconclusive int
}

func newWorker(r *rt.Run, name string) (*worker, error) {
	env, err := rt.NewEnv(rt.EnvOpts{})
	if err != nil {
		return nil, err
	}
	return &worker{env: env, tt: r.NewTrace("time_" + name), tc: r.NewTrace("count_" + name), seed: r.Seed}, nil
}

var tm = rt.DefaultTime

const chunk = 4000

// run executes one job on the real TaskMaster and writes one trace per group.
func (w *worker) run(j *Job) {
	if j.Kind == "delete" {
		w.runDelete(j)
		return
	}
	w.tasks++
	id := fmt.Sprintf("c03_%d", j.Idx)
	d := w.env.Diag
	d.Clear()
	et, err := w.env.StartTask(id, Script(j.Cfg), kapacitor.StreamTask, rt.DefaultDBRP)
	if err != nil {
		rt.Fatalf("c03: start task for %v: %v\n%s", j.Cfg, err, Script(j.Cfg))
	}
	ord := j.order(w.seed)
	seqOf := make([][]int, len(j.Groups))
	for g := range j.Groups {
		seqOf[g] = make([]int, len(j.Groups[g]))
	}
	buf := make([]imodels.Point, 0, chunk)
	for k, o := range ord {
		seq := k + 1
		seqOf[o.g][o.i] = seq
		buf = append(buf, rt.MustPoint("m", map[string]string{"g": gname(o.g)},
			map[string]any{"seq": int64(seq)}, tm.T(j.Groups[o.g][o.i])))
		if len(buf) == chunk || k == len(ord)-1 {
			if err := w.env.Write("db", "rp", buf...); err != nil {
				rt.Fatalf("c03: write: %v", err)
			}
			buf = buf[:0]
		}
	}
	w.pts += len(ord)
	// All points must be inside the task before it is stopped: WritePoints only
	// hands them to the TaskMaster's forking goroutine.  "collected" of the
	// stream source = points taken off the task's fork edge.
	failed := w.waitCollected(et, int64(len(ord)), id)
	stopErr := w.env.TM.StopTask(id)
	if stopErr != nil {
		failed = true
	}
	// demultiplex the sink by group
	sink := make([][]any, len(j.Groups))
	for g := range sink {
		sink[g] = []any{}
	}
	stray := 0
	for _, it := range d.SinkItems("w") {
		b := it.Batch
		if b == nil {
			stray++
			continue
		}
		g, ok := gindex(b.Tags()["g"])
		if !ok || g >= len(j.Groups) || b.Name() != "m" {
			stray++
			continue
		}
		sink[g] = append(sink[g], encBatch(b, gname(g)))
	}
	if stray > 0 {
		// something reached the sink that belongs to no group: make every trace of the task fail visibly
		failed = true
	}
	// NB: every key of the Reset line must sort after "ev" (encoding/json sorts map keys and
	// bin/verifylib.py recognises a trace start by the line prefix {"ev":"Reset").
	t := w.tt
	if j.Cfg.Count {
		t = w.tc
	}
	for g, times := range j.Groups {
		cfg := rt.M{"kind": j.Kind, "period": j.Cfg.P, "every": j.Cfg.E, "fill": j.Cfg.Fill,
			"sink": sink[g], "task": j.Idx, "grp": gname(g), "ngroups": len(j.Groups), "mode": j.Mode}
		if !j.Cfg.Count {
			cfg["use_align"] = j.Cfg.Align
		}
		if j.Label != "" {
			cfg["target"] = j.Label
		}
		t.Reset(cfg)
		for i, k := range times {
			t.Event("Point", rt.M{"t": k, "seq": seqOf[g][i]})
		}
		t.Event("End", rt.M{"failed": failed})
		if len(times) >= 2 && len(sink[g]) > 0 {
			t.Distinct(fmt.Sprintf("%v|%v", j.Cfg, times))
		}
	}
}

func (w *worker) waitCollected(et *kapacitor.ExecutingTask, n int64, id string) (failed bool) {
	deadline := time.Now().Add(120 * time.Second)
	for i := 0; ; i++ {
		st, err := et.ExecutionStats()
		if err != nil {
			rt.Fatalf("c03: execution stats: %v", err)
		}
		var got int64 = -1
		for name, ns := range st.NodeStats {
			if strings.HasPrefix(name, "stream") {
				if c, ok := ns["collected"].(int64); ok {
					got = c
				}
			}
		}
		if got < 0 {
			rt.Fatalf("c03: no collected counter for the stream source of %s (%v)", id, st.NodeStats)
		}
		if got >= n {
			return false
		}
		// a node that died (panic in the window code) aborts its parents: the counter will never get there
		for _, e := range w.env.Diag.Errors() {
			if e.Msg == "node failed" {
				return true
			}
		}
		if time.Now().After(deadline) {
			rt.Fatalf("c03: task %s took only %d of %d points off its input within the deadline", id, got, n)
		}
		if i < 50 {
			time.Sleep(50 * time.Microsecond)
		} else {
			time.Sleep(time.Millisecond)
		}
	}
}

func gname(g int) string { return fmt.Sprintf("g%d", g) }
func gindex(s string) (int, bool) {
	var g int
	if _, err := fmt.Sscanf(s, "g%d", &g); err != nil || gname(g) != s {
		return 0, false
	}
	return g, true
}

// encBatch: {tmax, pts: [[t, seq], ...]} in model units.  A point that does not
// carry the group's tag, or a time off the model grid, is encoded as a negative
// number so that no specification batch can match it.
func encBatch(b edge.BufferedBatchMessage, group string) rt.M {
	k, ok := tm.KOK(b.Time())
	if !ok {
		k = -1
	}
	pts := make([]any, 0, len(b.Points()))
	for _, bp := range b.Points() {
		pk, ok := tm.KOK(bp.Time())
		if !ok {
			pk = -1
		}
		seq := int64(-1)
		if v, ok := bp.Fields()["seq"].(int64); ok {
			seq = v
		}
		if bp.Tags()["g"] != group {
			seq = -seq - 1000000
		}
		pts = append(pts, []any{pk, seq})
	}
	return rt.M{"tmax": k, "pts": pts}
}
