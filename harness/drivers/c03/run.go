package c03

import (
	"encoding/json"
	"fmt"
	"math/rand"
	"os"
	"sync"

	"kapverif/rt"
)

func init() { rt.Register("c03", Run) }

const nWorkers = 8
const maxGroupsPerTask = 1500

// CoverItem is one entry of the transition cover computed by TLC from the
// WindowRing state graph (checks/c03.py): a shortest input reaching a ring branch.
type CoverItem struct {
	Branch string `json:"branch"`
	Period int    `json:"period"`
	Every  int    `json:"every"`
	Align  bool   `json:"align"`
	Fill   bool   `json:"fill"`
	Times  []int  `json:"times"`
}

// enumSeqs calls emit for every non-decreasing sequence of length 1..maxLen over
// grid whose first element is < t0lim (time-shift symmetry: without align the
// node only sees time differences, with align it sees times modulo every).
func enumSeqs(grid []int, maxLen, t0lim int, emit func([]int)) {
	cur := make([]int, 0, maxLen)
	var rec func(from int)
	rec = func(from int) {
		if len(cur) > 0 {
			emit(append([]int(nil), cur...))
		}
		if len(cur) == maxLen {
			return
		}
		for gi := from; gi < len(grid); gi++ {
			if len(cur) == 0 && grid[gi] >= t0lim {
				break
			}
			cur = append(cur, grid[gi])
			rec(gi)
			cur = cur[:len(cur)-1]
		}
	}
	rec(0)
}

func span(n int) []int {
	g := make([]int, n+1)
	for i := range g {
		g[i] = i
	}
	return g
}

func boundCfgs() []Cfg {
	var out []Cfg
	for p := 1; p <= 4; p++ {
		for e := 0; e <= 5; e++ {
			for _, a := range []bool{false, true} {
				for _, f := range []bool{false, true} {
					out = append(out, Cfg{P: p, E: e, Align: a, Fill: f})
				}
			}
		}
	}
	return out
}

type enumSpec struct {
	grid   []int
	maxLen int
}

// Run: transition cover + exhaustive enumeration + seeded random long sequences
// (time windows), and count windows, all on real tasks.
func Run(r *rt.Run) error {
	var jobs []*Job
	add := func(j *Job) {
		j.Idx = len(jobs)
		jobs = append(jobs, j)
	}
	// --- transition cover (single group per task so the input is exactly TLC's)
	var cover []CoverItem
	if len(r.Args) > 0 && r.Args[0] != "" {
		b, err := os.ReadFile(r.Args[0])
		if err != nil {
			return fmt.Errorf("cover file: %w", err)
		}
		if err := json.Unmarshal(b, &cover); err != nil {
			return fmt.Errorf("cover file: %w", err)
		}
	}
	nCover := 0
	for _, c := range cover {
		add(&Job{Kind: "cover", Label: c.Branch, Cfg: Cfg{P: c.Period, E: c.Every, Align: c.Align, Fill: c.Fill},
			Groups: [][]int{c.Times}})
		nCover++
	}
	// --- group deletion and come-back (phased; idle waits, so they go first and spread over the workers)
	nDelete := 0
	for _, j := range deleteJobs(rand.New(rand.NewSource(r.Seed*7919+3)), r.Thorough()) {
		add(j)
		nDelete++
	}
	// --- burst then silence (big buffers: the enumeration never buffers more than 5 points)
	nBurst := 0
	for _, j := range burstJobs(r.Thorough()) {
		j.Mode = len(jobs) % 3
		nBurst += len(j.Groups)
		add(j)
	}
	// --- exhaustive enumeration
	specs := []enumSpec{{[]int{0, 1, 2, 3, 4, 5, 6, 8, 10}, 5}}
	nRand, randMaxLen := 160, 120
	countN := 14
	if r.Thorough() {
		specs = []enumSpec{{span(12), 5}, {[]int{0, 1, 2, 3, 5, 8, 12}, 8}}
		nRand, randMaxLen = 1600, 300
		countN = 30
	}
	nEnum := 0
	for _, c := range boundCfgs() {
		t0lim := 1
		if c.Align && c.E > 1 {
			t0lim = c.E
		}
		var groups [][]int
		for si, sp := range specs {
			enumSeqs(sp.grid, sp.maxLen, t0lim, func(s []int) {
				if si > 0 && len(s) <= specs[0].maxLen {
					// already produced by the dense grid (every coarse value is on it)
					return
				}
				groups = append(groups, s)
			})
		}
		nEnum += len(groups)
		for a := 0; a < len(groups); a += maxGroupsPerTask {
			b := a + maxGroupsPerTask
			if b > len(groups) {
				b = len(groups)
			}
			j := &Job{Kind: "enum", Cfg: c, Groups: groups[a:b]}
			j.Mode = len(jobs) % 3
			add(j)
		}
	}
	// --- seeded random long sequences, 1-3 (sometimes 8) interleaved groups
	all := boundCfgs()
	for i := 0; i < nRand; i++ {
		var c Cfg
		if r.Rand.Intn(10) < 7 {
			c = all[r.Rand.Intn(len(all))]
		} else {
			c = Cfg{P: 1 + r.Rand.Intn(12), E: r.Rand.Intn(13), Align: r.Rand.Intn(2) == 0, Fill: r.Rand.Intn(2) == 0}
		}
		ng := 1 + r.Rand.Intn(3)
		if r.Rand.Intn(8) == 0 {
			ng = 8
		}
		j := &Job{Kind: "rand", Cfg: c, Mode: r.Rand.Intn(3)}
		for g := 0; g < ng; g++ {
			j.Groups = append(j.Groups, randSeq(r.Rand, c, 20+r.Rand.Intn(randMaxLen-19)))
		}
		add(j)
	}
	// --- count windows
	nCount := 0
	for p := 1; p <= 5; p++ {
		for e := 1; e <= 5; e++ {
			for _, f := range []bool{false, true} {
				c := Cfg{Count: true, P: p, E: e, Fill: f}
				j := &Job{Kind: "count", Cfg: c, Mode: r.Rand.Intn(3)}
				for n := 1; n <= countN; n++ {
					s := make([]int, n)
					t := r.Rand.Intn(3)
					for i := range s {
						t += r.Rand.Intn(3)
						s[i] = t
					}
					j.Groups = append(j.Groups, s)
				}
				nCount += len(j.Groups)
				add(j)
			}
		}
	}

	// --- run: job k goes to worker k mod nWorkers (deterministic trace files);
	// cover jobs go to their own worker/file so their branch hits can be reported separately
	cw, err := newWorker(r, "cover")
	if err != nil {
		return err
	}
	ws := make([]*worker, nWorkers)
	for k := range ws {
		if ws[k], err = newWorker(r, fmt.Sprintf("%02d", k)); err != nil {
			return err
		}
	}
	var wg sync.WaitGroup
	wg.Add(1)
	go func() {
		defer wg.Done()
		for _, j := range jobs[:nCover] {
			cw.run(j)
		}
	}()
	for k := range ws {
		wg.Add(1)
		go func(k int) {
			defer wg.Done()
			for i := nCover + k; i < len(jobs); i += nWorkers {
				ws[k].run(jobs[i])
			}
		}(k)
	}
	wg.Wait()
	tasks, pts := cw.tasks, cw.pts
	delTraces, inconclusive := 0, 0
	cw.env.Close()
	for _, w := range ws {
		tasks += w.tasks
		pts += w.pts
		delTraces += w.delTraces
		inconclusive += w.inconclusive
		w.env.Close()
	}
	r.Extra["burst_then_silence_sequences"] = nBurst
	r.Extra["delete_comeback_tasks"] = nDelete
	r.Extra["delete_comeback_group_traces"] = delTraces
	r.Extra["delete_task_attempts_discarded_as_inconclusive"] = inconclusive
	r.Extra["real_tasks_run"] = tasks
	r.Extra["points_fed"] = pts
	r.Extra["cover_inputs"] = nCover
	r.Extra["enumerated_group_sequences"] = nEnum
	r.Extra["random_tasks"] = nRand
	r.Extra["count_window_sequences"] = nCount
	en := []any{}
	for _, sp := range specs {
		en = append(en, rt.M{"grid": sp.grid, "max_len": sp.maxLen})
	}
	r.Extra["enumeration"] = en
	r.Finish("real stream task from().groupBy('g')|window()|log(); one trace = one group's window. Time windows: for every "+
		"(period 1..4, every 0..5, align, fillPeriod) ALL non-decreasing timestamp sequences up to the length bound over the grid "+
		"(first time < every with align, = 0 otherwise: time-shift symmetry), up to 1500 such groups interleaved in one task "+
		"(round robin / seeded random merge / time order); plus TLC's shortest inputs for every ring branch; plus seeded random long "+
		"sequences (1-3 or 8 groups, repeats, gaps that empty the window, period/every up to 12); count windows periodCount 1..5 x "+
		"everyCount 1..5 x fillPeriod for every length up to the bound; plus burst-then-silence: N points (N around every ring capacity 2,6,14,30,62,126 "+
		"and 32,33,64,200) inside one period or across an emission, a silence of period-1/period/period+1/3*period, three more points, for "+
		"every in {0, <period, =period, >period} x align x fillPeriod; plus group deletion: barrier().idle(1s).delete(TRUE) in front of the "+
		"window, phased histories (first life, every group deleted - awaited through the window node's working_cardinality -, come-back "+
		"back to back / after another group's point / interleaved / alone, sometimes deleted twice) for time and count windows. Non-trivial = at least 2 points and at least one emitted batch; "+
		"distinct by (configuration, timestamp sequence)", true)
	return nil
}

// burstJobs: a group buffers N points - inside one period (shape 0) or spread over period+every+1 so
// that a window is emitted while the buffer is large (shape 1) -, goes silent for `gap`, and comes back
// with three points (the overdue window, the next one, and one after another long silence).  N runs
// over the neighbourhood of every capacity of the code's ring (it grows 2, 6, 14, 30, 62, 126, 254
// when full) and the values 32, 33, 64, 200; the gaps sit around the period.
func burstJobs(thorough bool) []*Job {
	periods := []int{1, 2, 4}
	ns := []int{1, 3, 7, 15, 30, 31, 32, 33, 63, 64, 127, 200}
	if thorough {
		periods = []int{1, 2, 3, 4}
		ns = []int{1, 2, 3, 5, 6, 7, 13, 14, 15, 29, 30, 31, 32, 33, 61, 62, 63, 64, 125, 126, 127, 200, 254, 255}
	}
	var jobs []*Job
	for _, p := range periods {
		evs := []int{0}
		if p/2 >= 1 {
			evs = append(evs, p/2)
		}
		evs = append(evs, p, p+1)
		for _, e := range evs {
			for fi := 0; fi < 4; fi++ {
				c := Cfg{P: p, E: e, Align: fi&1 == 1, Fill: fi&2 == 2}
				j := &Job{Kind: "burst", Cfg: c}
				for ni, n := range ns {
					for gi, gap := range []int{p - 1, p, p + 1, 3 * p} {
						for shape := 0; shape < 2; shape++ {
							if shape == 1 && gap != p+1 {
								continue
							}
							t0 := (ni + gi) % 2 // with align the phase of the first point matters
							width := p
							if shape == 1 {
								width = p + e + 1
							}
							seq := make([]int, 0, n+3)
							for i := 0; i < n; i++ {
								seq = append(seq, t0+i*width/n)
							}
							t := seq[len(seq)-1] + gap
							seq = append(seq, t)
							step := e
							if step == 0 {
								step = 1
							}
							t += step
							seq = append(seq, t)
							t += 2*p + e + 1
							seq = append(seq, t)
							j.Groups = append(j.Groups, seq)
						}
					}
				}
				jobs = append(jobs, j)
			}
		}
	}
	return jobs
}

// randSeq: a long non-decreasing sequence with repeats, steps around every/period and gaps that empty the window.
func randSeq(rnd *rand.Rand, c Cfg, n int) []int {
	s := make([]int, n)
	t := rnd.Intn(c.E + 2)
	for i := range s {
		switch x := rnd.Intn(20); {
		case x < 6:
			// repeat
		case x < 12:
			t++
		case x < 15:
			t += 1 + rnd.Intn(c.E+1)
		case x < 18:
			t += 1 + rnd.Intn(c.P+1)
		default:
			t += c.P + c.E + rnd.Intn(2*(c.P+c.E)+1)
		}
		s[i] = t
	}
	return s
}
