package c03

import (
	"fmt"
	"math/rand"
	"strings"
	"time"

	imodels "github.com/influxdata/influxdb/models"
	"github.com/influxdata/kapacitor"

	"kapverif/rt"
)

// Group deletion and come-back (growth of C03: a deleted group's window state is
// dropped; a group that comes back starts an empty window).
//
//	stream|from().measurement('m').groupBy('g')|barrier().idle(1s).delete(TRUE)|window()...|log().prefix('w')
//
// The idle barrier's message carries DATA time (last point time + idle = +1 model
// unit), but it fires on wall-clock idleness.  The driver therefore works in
// phases: write all points of the phase in one call, wait until the window node
// has taken every point written so far, record its working_cardinality (Holds),
// wait until it is 0 again (every group deleted: Quiet), write the next phase.  Two
// timing facts make the recorded order exact, and neither is ever a verdict:
//   - guard: if the window node had taken all points of the phase less than
//     `guard` (< idle) after the write started, no idle timer of a group created
//     in this phase can have fired before the phase was through the barrier
//     node, so every group's messages at the window are: its points, then
//     Barrier, then DeleteGroup.  A phase that took longer is inconclusive: the
//     task is thrown away and repeated (a run that stays inconclusive is a
//     harness failure, exit 2);
//   - all waits have a generous deadline; a miss is a harness failure (exit 2).
const (
	idleUnits = 1 // barrier().idle(1s) = one model time unit
	guard     = 700 * time.Millisecond
	delTries  = 8
)

// DelWrite is one point of a phase: group and model time.
type DelWrite struct{ G, T int }

// DeleteScript is Script with the deleting barrier in front of the window.
func DeleteScript(c Cfg) string {
	return strings.Replace(Script(c), "\n    |window()", "\n    |barrier().idle(1s).delete(TRUE)\n    |window()", 1)
}

func nodeStat(et *kapacitor.ExecutingTask, prefix, key string) (int64, bool) {
	st, err := et.ExecutionStats()
	if err != nil {
		rt.Fatalf("c03: execution stats: %v", err)
	}
	for name, ns := range st.NodeStats {
		if strings.HasPrefix(name, prefix) {
			switch v := ns[key].(type) {
			case int64:
				return v, true
			case int:
				return int64(v), true
			}
		}
	}
	return 0, false
}

func (w *worker) nodeFailed() bool {
	for _, e := range w.env.Diag.Errors() {
		if e.Msg == "node failed" {
			return true
		}
	}
	return false
}

// runDelete executes a phased job; it repeats the task until every phase was conclusive.
func (w *worker) runDelete(j *Job) {
	for try := 0; try < delTries; try++ {
		if w.tryDelete(j, try) {
			return
		}
		w.inconclusive++
	}
	rt.Fatalf("c03: delete job %d (%v): %d attempts in a row had a phase that took longer than %v to pass the barrier node "+
		"(machine too loaded for a conclusive run; not a verdict)", j.Idx, j.Cfg, delTries, guard)
}

func (w *worker) tryDelete(j *Job, try int) bool {
	w.tasks++
	id := fmt.Sprintf("c03_%d_%d", j.Idx, try)
	d := w.env.Diag
	d.Clear()
	et, err := w.env.StartTask(id, DeleteScript(j.Cfg), kapacitor.StreamTask, rt.DefaultDBRP)
	if err != nil {
		rt.Fatalf("c03: start task for %v: %v\n%s", j.Cfg, err, DeleteScript(j.Cfg))
	}
	ngroups := 0
	for _, ph := range j.Phases {
		for _, wr := range ph {
			if wr.G+1 > ngroups {
				ngroups = wr.G + 1
			}
		}
	}
	type ev struct {
		quiet, holds bool
		t, seq       int // holds: t = working_cardinality observed, seq = groups of the phase
	}
	evs := make([][]ev, ngroups)
	total, seq := 0, 0
	failed := false
	for pi, ph := range j.Phases {
		pts := make([]imodels.Point, 0, len(ph))
		for _, wr := range ph {
			seq++
			evs[wr.G] = append(evs[wr.G], ev{t: wr.T, seq: seq})
			pts = append(pts, rt.MustPoint("m", map[string]string{"g": gname(wr.G)},
				map[string]any{"seq": int64(seq)}, tm.T(wr.T)))
		}
		t0 := time.Now()
		if err := w.env.Write("db", "rp", pts...); err != nil {
			rt.Fatalf("c03: write: %v", err)
		}
		total += len(ph)
		// 1. the window node has taken every point written so far
		deadline := time.Now().Add(180 * time.Second)
		for {
			got, ok := nodeStat(et, "window", "collected")
			if !ok {
				rt.Fatalf("c03: no collected counter for the window node of %s", id)
			}
			if got >= int64(total) {
				break
			}
			if w.nodeFailed() {
				failed = true
				break
			}
			if time.Now().After(deadline) {
				rt.Fatalf("c03: window node of %s took only %d of %d points within the deadline", id, got, total)
			}
			time.Sleep(200 * time.Microsecond)
		}
		if failed {
			break
		}
		// 2. exact observation: the last point of the phase (A's, and A has earlier points in the
		// phase) has been taken, so all earlier points are processed; all groups of earlier phases
		// were gone (observed).  If no idle timer can have fired yet (guard, checked AFTER the
		// reading it protects) the node must hold exactly one window per group of this phase.
		inPhase := map[int]bool{}
		for _, wr := range ph {
			inPhase[wr.G] = true
		}
		c, ok := nodeStat(et, "window", "working_cardinality")
		if !ok {
			rt.Fatalf("c03: no working_cardinality for the window node of %s", id)
		}
		if time.Since(t0) > guard {
			// an idle timer may have fired before the phase was through: inconclusive, repeat the task
			w.env.TM.StopTask(id)
			return false
		}
		for g := range evs {
			evs[g] = append(evs[g], ev{holds: true, t: int(c), seq: len(inPhase)})
		}
		if int(c) != len(inPhase) || pi == len(j.Phases)-1 {
			// last phase - or the node does not hold the groups it was given points for: the barrier
			// node in front may be confused in the same way and never delete them; the recorded
			// prefix is exact, stop here
			break
		}
		// 3. every group has been deleted again at the window node
		deadline = time.Now().Add(180 * time.Second)
		for {
			c, _ := nodeStat(et, "window", "working_cardinality")
			if c == 0 {
				break
			}
			if w.nodeFailed() {
				failed = true
				break
			}
			if time.Now().After(deadline) {
				rt.Fatalf("c03: the groups of %s were not deleted at the window node within the deadline (cardinality %d)", id, c)
			}
			time.Sleep(time.Millisecond)
		}
		if failed {
			break
		}
		for g := range evs {
			evs[g] = append(evs[g], ev{quiet: true})
		}
	}
	w.pts += total
	if err := w.env.TM.StopTask(id); err != nil {
		failed = true
	}
	sink := make([][]any, ngroups)
	for g := range sink {
		sink[g] = []any{}
	}
	for _, it := range d.SinkItems("w") {
		b := it.Batch
		if b == nil {
			failed = true
			continue
		}
		g, ok := gindex(b.Tags()["g"])
		if !ok || g >= ngroups || b.Name() != "m" {
			failed = true
			continue
		}
		sink[g] = append(sink[g], encBatch(b, gname(g)))
	}
	t := w.tt
	if j.Cfg.Count {
		t = w.tc
	}
	for g := range evs {
		cfg := rt.M{"kind": j.Kind, "period": j.Cfg.P, "every": j.Cfg.E, "fill": j.Cfg.Fill,
			"sink": sink[g], "task": j.Idx, "grp": gname(g), "ngroups": ngroups, "order": j.Label}
		if !j.Cfg.Count {
			cfg["use_align"] = j.Cfg.Align
		}
		t.Reset(cfg)
		key := fmt.Sprintf("del|%v|%s", j.Cfg, j.Label)
		for _, e := range evs[g] {
			if e.quiet {
				t.Event("Quiet", rt.M{"idle": idleUnits})
				key += "|Q"
			} else if e.holds {
				t.Event("Holds", rt.M{"groups": e.t, "phase_groups": e.seq})
			} else {
				t.Event("Point", rt.M{"t": e.t, "seq": e.seq})
				key += fmt.Sprintf(",%d", e.t)
			}
		}
		t.Event("End", rt.M{"failed": failed})
		if len(sink[g]) > 0 {
			t.Distinct(key)
		}
	}
	w.delTraces += ngroups
	return true
}

// deleteJobs builds the phased histories.  Group 0 ("A") is always the group whose
// point is the last one the window node processed before the deletion; `order`
// decides how it comes back:
//
//	back2back   A's points first, back to back, then the other groups
//	afterOther  one point of another group first, then A's points, then the rest
//	interleaved A, B, A, C, ... round robin starting with A
//	solo        A is the only group of the task
//
// The other groups (seeded random short sequences) come back in all positions.
func deleteJobs(rnd *rand.Rand, thorough bool) []*Job {
	var cfgs []Cfg
	if thorough {
		cfgs = boundCfgs()
		for p := 1; p <= 5; p++ {
			for e := 1; e <= 5; e++ {
				for _, f := range []bool{false, true} {
					cfgs = append(cfgs, Cfg{Count: true, P: p, E: e, Fill: f})
				}
			}
		}
	} else {
		cfgs = []Cfg{
			{P: 1, E: 0}, {P: 2, E: 0, Fill: true}, {P: 3, E: 0, Align: true},
			{P: 1, E: 1}, {P: 2, E: 1, Align: true, Fill: true}, {P: 3, E: 1, Fill: true},
			{P: 1, E: 2}, {P: 2, E: 2, Align: true}, {P: 4, E: 2}, {P: 4, E: 3, Align: true, Fill: true},
			{P: 2, E: 3}, {P: 3, E: 5, Fill: true},
			{Count: true, P: 1, E: 1}, {Count: true, P: 2, E: 1}, {Count: true, P: 3, E: 2, Fill: true}, {Count: true, P: 2, E: 3},
		}
	}
	orders := []string{"back2back", "afterOther", "interleaved", "solo"}
	var jobs []*Job
	for ci, c := range cfgs {
		var ords []string
		if thorough {
			ords = orders
		} else {
			// quick: back2back for every configuration (the order in which nothing else touches the
			// node between the deletion and the come-back), the others in rotation
			ords = []string{"back2back", orders[1+ci%3]}
		}
		for oi, ord := range ords {
			nOther := 5
			if ord == "solo" {
				nOther = 0
			}
			nPhases := 2
			if (ci+oi)%4 == 3 {
				nPhases = 3 // deleted twice
			}
			// per group and phase a short non-decreasing sequence; a come-back starts at or after
			// last+idle (a point older than the barrier would be dropped by the barrier node - of the
			// old incarnation only, but keep the histories realistic) except now and then earlier
			seqs := make([][][]int, 1+nOther)
			for g := range seqs {
				t := rnd.Intn(3)
				for ph := 0; ph < nPhases; ph++ {
					n := 1 + rnd.Intn(4)
					if g == 0 && n < 3 {
						n = 3
					}
					if g > 0 && ph > 0 && rnd.Intn(6) == 0 {
						n = 0 // the group does not come back in this phase
					}
					var s []int
					for i := 0; i < n; i++ {
						s = append(s, t)
						t += []int{0, 1, 1, 1, 2, c.P + c.E}[rnd.Intn(6)]
					}
					seqs[g] = append(seqs[g], s)
					switch rnd.Intn(4) {
					case 0:
						t += idleUnits
					case 1:
						t += idleUnits + 1
					case 2:
						t += c.P + c.E + 2
					default:
						if g > 0 && t >= 2 {
							t -= 2 // comes back with older times: a fresh group takes any time
						} else {
							t += idleUnits
						}
					}
				}
			}
			j := &Job{Kind: "delete", Label: ord, Cfg: c}
			nO := len(seqs) - 1
			for ph := 0; ph < nPhases; ph++ {
				var wr []DelWrite
				cur := make([]int, len(seqs))
				emit := func(g int) bool {
					if cur[g] < len(seqs[g][ph]) {
						wr = append(wr, DelWrite{g, seqs[g][ph][cur[g]]})
						cur[g]++
						return true
					}
					return false
				}
				drainOthers := func() {
					for {
						any := false
						for g := 1; g <= nO; g++ {
							if emit(g) {
								any = true
							}
						}
						if !any {
							return
						}
					}
				}
				rot := 0
				nextOther := func() {
					for k := 0; k < nO; k++ {
						g := 1 + (rot+k)%nO
						if emit(g) {
							rot = g % nO
							return
						}
					}
				}
				// Whatever the order, A's last point ends the phase: when the node has taken the last
				// point of a phase every EARLIER point has been processed completely (one goroutine,
				// one message at a time), so every group of the phase - A has at least 3 points - must
				// exist by then; and A's receiver is the one the node used last before the deletion.
				nA := len(seqs[0][ph])
				switch {
				case ph == 0 || ord == "solo":
					// first life: the others first, then A
					drainOthers()
				case ord == "back2back":
					// A comes back first, back to back
					for k := 0; k < nA-1; k++ {
						emit(0)
					}
					drainOthers()
				case ord == "afterOther":
					nextOther()
					for k := 0; k < nA-1; k++ {
						emit(0)
					}
					drainOthers()
				default: // interleaved: A, other, A, other, ...
					for k := 0; k < nA-1; k++ {
						emit(0)
						nextOther()
					}
					drainOthers()
				}
				for emit(0) {
				}
				j.Phases = append(j.Phases, wr)
			}
			jobs = append(jobs, j)
		}
	}
	return jobs
}
