package c09

import (
	"fmt"
	"sync"

	"github.com/influxdata/kapacitor/alert"

	"kapverif/rt"
)

func init() { rt.Register("c09race", RunRace) }

// RunRace: B3 scenarios that need a specific moment:
//  (a) handler update / removal while the handler still has queued events
//      (Close must drain them into the OLD handler first: the spec's
//      Deregister/Replace are enabled only on an empty queue);
//  (b) several publishers collecting on a topic that does not exist yet (the
//      topic.missing gate parks all of them between "no topic" and creation).
func RunRace(r *rt.Run) error {
	var mu sync.Mutex
	parked := map[string]chan struct{}{} // real topic -> release channel
	arrived := map[string]chan struct{}{}
	InstallHooks(func(point string, args ...string) {
		if point != "topic.missing" {
			return
		}
		mu.Lock()
		rel, ok := parked[args[0]]
		arr := arrived[args[0]]
		mu.Unlock()
		if !ok {
			return
		}
		arr <- struct{}{}
		<-rel
	})
	svc, err := NewSvc(false)
	if err != nil {
		return err
	}
	defer svc.Close()
	t := r.NewTrace("race")

	// ---- (a) backlog at Replace / Deregister
	cfgs := []Cfg{
		{Topic: "t1", Kind: "rec", Match: "changed"},
		{Topic: "t1", Kind: "rec", Match: "warn"},
	}
	newCfgs := []Cfg{
		{Topic: "t1", Kind: "rec", Match: "critchanged"},
		{Topic: "t1", Kind: "rec", Match: "changed"},
	}
	hists := [][]step{
		{{"a", 3}, {"a", 0}, {"b", 2}},
		{{"a", 2}, {"b", 3}, {"a", 3}, {"b", 0}},
		{{"c", 1}, {"c", 2}, {"c", 3}},
	}
	if r.Thorough() {
		for i := 0; i < 30; i++ {
			var h []step
			for k := 2 + r.Rand.Intn(4); k > 0; k-- {
				h = append(h, step{ids[r.Rand.Intn(3)], r.Rand.Intn(4)})
			}
			hists = append(hists, h)
		}
	}
	for ci, c := range cfgs {
		for hi, hist := range hists {
			for _, op := range []string{"Replace", "Deregister"} {
				for cut := 1; cut <= len(hist); cut++ {
					tr := svc.Begin(t)
					tr.Register("h1", c)
					st := tr.hs["h1"]
					st.rec.Block() // the old handler stalls: events pile up in its queue
					for k := 0; k < cut; k++ {
						ev := alert.Event{Topic: tr.real("t1"), State: alert.EventState{ID: hist[k].id, Level: alert.Level(hist[k].lvl)}}
						if err := svc.S.Collect(ev); err != nil {
							rt.Fatalf("c09race: collect: %v", err)
						}
						t.Event("Collect", rt.M{"topic": "t1", "id": hist[k].id, "lvl": hist[k].lvl})
					}
					// issue the update/removal while the backlog exists; it blocks until the old handler drained
					done := make(chan struct{})
					go func() {
						if op == "Replace" {
							tr.Replace("h1", newCfgs[ci])
						} else {
							tr.Deregister("h1")
						}
						close(done)
					}()
					st.rec.Release()
					<-done
					for k := cut; k < len(hist); k++ {
						tr.Collect("t1", hist[k].id, hist[k].lvl, k)
					}
					tr.quiesce()
					tr.Obs()
					tr.End()
					t.Distinct(fmt.Sprintf("a/%d/%d/%s/%d", ci, hi, op, cut))
				}
			}
		}
	}

	// ---- (b) concurrent first collects on a topic that does not exist yet
	nPubs := []int{2, 3}
	for _, np := range nPubs {
		for rep := 0; rep < 6; rep++ {
			tr := svc.Begin(t)
			topic := tr.real("t1")
			rel := make(chan struct{})
			arr := make(chan struct{}, np)
			mu.Lock()
			parked[topic], arrived[topic] = rel, arr
			mu.Unlock()
			var wg sync.WaitGroup
			evs := make([]step, np)
			for p := 0; p < np; p++ {
				evs[p] = step{ids[(p+rep)%3], 1 + (p+rep)%3}
				wg.Add(1)
				go func(p int) {
					defer wg.Done()
					ev := alert.Event{Topic: topic, State: alert.EventState{ID: evs[p].id, Level: alert.Level(evs[p].lvl)}}
					if err := svc.S.Collect(ev); err != nil {
						rt.Fatalf("c09race: collect: %v", err)
					}
				}(p)
			}
			for p := 0; p < np; p++ {
				<-arr // every publisher has seen "no topic" and is parked before creation
			}
			mu.Lock()
			delete(parked, topic)
			delete(arrived, topic)
			mu.Unlock()
			close(rel)
			wg.Wait()
			// the collects ran concurrently: their order is unknown, the resulting state is not
			// (distinct IDs): log them in a canonical order as plain Collect events
			for p := 0; p < np; p++ {
				t.Event("Collect", rt.M{"topic": "t1", "id": evs[p].id, "lvl": evs[p].lvl})
			}
			tr.quiesce()
			tr.Obs()
			// a later event of the same ID must see the right previous level
			tr.Register("h1", Cfg{Topic: "t1", Kind: "rec", Match: "none"})
			tr.Collect("t1", evs[0].id, 0, 9)
			tr.End()
			t.Distinct(fmt.Sprintf("b/%d/%d", np, rep))
		}
	}
	r.Finish("(a) handler update/removal issued while the (gated) old handler still has 1..n queued events, for 2 match configurations x histories x {Replace, Deregister} x every cut point; (b) 2-3 publishers parked by the topic.missing gate between 'topic absent' and its creation, then released together; distinct by scenario parameters", !r.Thorough())
	return nil
}
