package c09

import (
	"fmt"
	"time"

	"github.com/influxdata/kapacitor/alert"

	"kapverif/rt"
)

func init() { rt.Register("c09agg", RunAgg) }

// RunAgg: aggregate handlers (timer driven).  An aggregate handler on t1 with
// target t2 and a recorder on t2; events are collected on t1 in bursts and in
// paced sequences so that the 3 ms ticker cuts them into different groups; the
// driver then waits until the summaries seen on t2 account for every collected
// event (or 10 s pass: then it logs what there is and the spec decides) and
// records the observation.  TLC chooses the grouping (AggTick is a silent step).
func RunAgg(r *rt.Run) error {
	InstallHooks(nil)
	svc, err := NewSvc(false)
	if err != nil {
		return err
	}
	defer svc.Close()
	t := r.NewTrace("agg")
	hists := [][]step{
		{{"a", 3}},
		{{"a", 1}, {"b", 3}, {"a", 0}},
		{{"a", 2}, {"a", 2}, {"b", 1}, {"c", 3}, {"a", 0}},
		{{"c", 0}, {"b", 0}, {"a", 0}, {"a", 1}},
	}
	nRand := 30
	if r.Thorough() {
		nRand = 400
	}
	for i := 0; i < nRand; i++ {
		var h []step
		for k := 1 + r.Rand.Intn(6); k > 0; k-- {
			h = append(h, step{ids[r.Rand.Intn(3)], r.Rand.Intn(4)})
		}
		hists = append(hists, h)
	}
	for hi, hist := range hists {
		for _, pace := range []int{0, 1, 2} { // 0: one burst; 1: pause after every event; 2: pause in the middle
			tr := svc.Begin(t)
			tr.Register("h1", Cfg{Topic: "t1", Kind: "agg", Match: "none", Targets: []string{"t2"}})
			tr.Register("h3", Cfg{Topic: "t2", Kind: "rec", Match: "none"})
			// what a match expression can see of a summary: it has no name or task name, and the largest duration
			tr.Register("h4", Cfg{Topic: "t2", Kind: "rec", Match: "durGt1"})
			tr.Register("h5", Cfg{Topic: "t2", Kind: "rec", Match: "nameM"})
			for k, s := range hist {
				ev := alert.Event{Topic: tr.real("t1"), State: alert.EventState{ID: s.id, Level: alert.Level(s.lvl), Message: "m"}}
				ev.Data.Name, ev.Data.TaskName = "m", "tk"
				f := rt.M{"topic": "t1", "id": s.id, "lvl": s.lvl}
				if (hi+k)%3 == 0 {
					ev.State.Duration = 5 * time.Second
					f["tag"] = "d"
				}
				if err := svc.S.Collect(ev); err != nil {
					rt.Fatalf("c09agg: collect: %v", err)
				}
				t.Event("Collect", f)
				if pace == 1 || (pace == 2 && k == len(hist)/2) {
					time.Sleep(8 * time.Millisecond)
				}
			}
			// wait for the flush: the counts of the summaries recorded on t2 add up to the collected events
			rec := tr.hs["h3"].rec
			deadline := time.Now().Add(10 * time.Second)
			for {
				total := 0
				for _, e := range rec.Snapshot() {
					var n int
					fmt.Sscanf(e.State.Message, "%d", &n)
					total += n
				}
				if total >= len(hist) || time.Now().After(deadline) {
					break
				}
				time.Sleep(500 * time.Microsecond)
			}
			tr.quiesce()
			tr.Obs()
			tr.End()
			t.Distinct(fmt.Sprintf("agg/%d/%d", hi, pace))
		}
	}
	r.Finish("an aggregate handler (3 ms interval) between two topics: fixed and seeded random event histories collected as one burst, paced, or split in the middle; summaries (id, level, previous level, count) recorded on the target topic; distinct by (history, pacing)", false)
	return nil
}
