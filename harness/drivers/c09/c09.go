// Package c09 drives the real alert service (services/alert.Service over
// alert.Topics) through operation histories and records, after every
// operation and at quiescence, everything the API reports (DESIGN.md C09).
package c09

import (
	"fmt"
	"runtime"
	"strconv"
	"strings"
	"sync"
	"sync/atomic"
	"time"

	"github.com/influxdata/kapacitor/alert"
	"github.com/influxdata/kapacitor/keyvalue"
	alertservice "github.com/influxdata/kapacitor/services/alert"
	"github.com/influxdata/kapacitor/services/httppost"

	"kapverif/rt"
)

// per-trace counters fed by the verif hooks in alert/topics.go
type tctx struct {
	enq, done atomic.Int64
	perTopic  sync.Map // real topic name -> *[2]atomic.Int64 {enq, done}
}

func (c *tctx) topic(name string) *[2]atomic.Int64 {
	v, _ := c.perTopic.LoadOrStore(name, &[2]atomic.Int64{})
	return v.(*[2]atomic.Int64)
}

var ctxs sync.Map // trace suffix -> *tctx

func suffix(topic string) string {
	if i := strings.LastIndexByte(topic, '_'); i >= 0 {
		return topic[i+1:]
	}
	return ""
}

// InstallHooks wires alert.VerifHook to the per-trace counters (gate is optional).
func InstallHooks(gate func(point string, args ...string)) {
	alert.VerifHook = func(point string, args ...string) {
		switch point {
		case "handler.enq":
			if c, ok := ctxs.Load(suffix(args[0])); ok {
				c.(*tctx).topic(args[0])[0].Add(1)
				c.(*tctx).enq.Add(1)
			}
		case "handler.done":
			if c, ok := ctxs.Load(suffix(args[0])); ok {
				c.(*tctx).topic(args[0])[1].Add(1)
				c.(*tctx).done.Add(1)
			}
		}
		if gate != nil {
			gate(point, args...)
		}
	}
}

// talk is a fake TalkService: handler specs of kind "talk" become recorders.
type talk struct {
	mu   sync.Mutex
	last *rt.RecHandler
}

func (t *talk) Handler(ctx ...keyvalue.T) alert.Handler {
	h := rt.NewRecHandler("")
	t.mu.Lock()
	t.last = h
	t.mu.Unlock()
	return h
}

// Svc is one assembled alert service for many traces.
type Svc struct {
	S     *alertservice.Service
	store *rt.BoltStore
	talk  *talk
	Diag  *rt.Diag
}

func NewSvc(persist bool) (*Svc, error) { return NewSvcBuf(persist, 0) }

// NewSvcBuf: topicBufLen is the length of every handler's queue (0 = the service's default).
func NewSvcBuf(persist bool, topicBufLen int) (*Svc, error) { return newSvc(persist, topicBufLen, nil) }

// NewSvcWrap: the alert service sees the storage through wrap (fault injection).
func NewSvcWrap(persist bool, wrap func(*rt.BoltStore) alertservice.StorageService) (*Svc, error) {
	return newSvc(persist, 0, wrap)
}

func newSvc(persist bool, topicBufLen int, wrap func(*rt.BoltStore) alertservice.StorageService) (*Svc, error) {
	d := rt.NewDiag()
	st, err := rt.NewBoltStore("", true, d)
	if err != nil {
		return nil, err
	}
	s := alertservice.NewService(rt.AlertDiag{D: d}, nil, topicBufLen)
	s.PersistTopics = persist
	s.StorageService = st
	if wrap != nil {
		s.StorageService = wrap(st)
	}
	s.HTTPDService = &rt.FakeHTTPD{}
	hp, _ := httppost.NewService(nil, rt.HTTPPostDiag{D: d})
	s.HTTPPostService = hp
	tk := &talk{}
	s.TalkService = tk
	if err := s.Open(); err != nil {
		return nil, err
	}
	return &Svc{S: s, store: st, talk: tk, Diag: d}, nil
}

func (s *Svc) Close() { s.S.Close(); s.store.Close() }

// Cfg is a handler configuration in model terms.
type Cfg struct {
	Topic   string
	Kind    string // rec | publish
	Match   string // none | changed | warn | critchanged | never
	Targets []string
}

var matchExpr = map[string]string{
	"none":        "",
	"changed":     "changed() == TRUE",
	"warn":        "level() >= WARNING",
	"critchanged": "level() == CRITICAL AND changed()",
	"never":       "level() > CRITICAL",
	"tagA":        `"host" == 'a'`,
	"tagAwarn":    `"host" == 'a' AND level() >= WARNING`,
	"nameM":       `name() == 'm'`,
	"taskT":       `taskName() == 'tk'`,
	"durGt1":      `alertDuration() > 1s`,
	"nameMchanged": `name() == 'm' AND changed()`,
}

type hstate struct {
	cfg  Cfg
	rec  *rt.RecHandler // for kind rec
	anon bool
}

// Tr is one trace in progress.
type retired struct {
	rec *rt.RecHandler
	n   int // events it had seen when it was retired
}

type Tr struct {
	dead    bool // an API call failed unexpectedly: logged as ApiError (no spec action explains it), rest of the trace skipped
	retired []retired
	svc    *Svc
	t      *rt.Trace
	sfx    string
	ctx    *tctx
	hs     map[string]*hstate
	topics []string
}

var traceNo atomic.Int64

func (s *Svc) Begin(t *rt.Trace) *Tr {
	n := traceNo.Add(1)
	tr := &Tr{svc: s, t: t, sfx: fmt.Sprint(n), ctx: &tctx{}, hs: map[string]*hstate{}, topics: []string{"t1", "t2"}}
	ctxs.Store(tr.sfx, tr.ctx)
	t.Reset(nil)
	return tr
}

func (tr *Tr) real(topic string) string { return topic + "_" + tr.sfx }

// apiError records an error returned by the service API.  The specification has no action for it:
// the model says the call must succeed (e.g. registering a handler id that is free), so TLC rejects
// the trace at this line - the error is the observable misbehaviour, not a harness failure.
func (tr *Tr) apiError(call string, err error) {
	tr.t.Event("ApiError", rt.M{"call": call, "err": err.Error()})
	tr.dead = true
}
func (tr *Tr) model(topic string) string {
	return strings.TrimSuffix(topic, "_"+tr.sfx)
}

func (tr *Tr) quiesce() {
	// Exact quiescence from the hook counters.  The two counters cannot be read atomically, so the
	// order matters: read done FIRST, then enq.  done(T1) == enq(T2), T1 < T2, implies that nothing was
	// in flight at T2 (done only grows and never overtakes the enqueues it answers, except for the nested
	// enq of a publish handler whose target handler already finished - in which case every recorder has
	// already been handed its event).  Reading enq first is wrong: enq=2 can be read before a publish
	// handler's nested enqueue and done=2 after it finished, with the nested event still unhandled
	// (observed once in ~70 000 traces).
	deadline := time.Now().Add(10 * time.Second)
	if tr.dead {
		return
	}
	for i := 0; ; i++ {
		d := tr.ctx.done.Load()
		e := tr.ctx.enq.Load()
		if d == e {
			runtime.Gosched()
			d2 := tr.ctx.done.Load()
			e2 := tr.ctx.enq.Load()
			if d2 == e2 && d2 == d {
				return
			}
		}
		if i > 100 {
			time.Sleep(50 * time.Microsecond)
		}
		if time.Now().After(deadline) {
			// Events were enqueued to a handler and never handed to it.  That is a verdict only with structural evidence:
			// the counters stand still across several samples AND no goroutine is inside a handler any more (nothing is
			// in flight - the events sit in a queue nobody reads).  Anything else stays a harness failure.
			if ev, ok := lostEvidence(tr.ctx); ok {
				tr.t.Event("Lost", rt.M{"enq": tr.ctx.enq.Load(), "done": tr.ctx.done.Load(), "evidence": ev})
				tr.dead = true
				return
			}
			rt.Fatalf("c09: handlers did not quiesce (enq=%d done=%d)", tr.ctx.enq.Load(), tr.ctx.done.Load())
		}
	}
}

// lostEvidence: enq/done unchanged over 5 samples 100 ms apart and no goroutine running handler code.
func lostEvidence(c *tctx) (string, bool) {
	e0, d0 := c.enq.Load(), c.done.Load()
	for i := 0; i < 5; i++ {
		time.Sleep(100 * time.Millisecond)
		if c.enq.Load() != e0 || c.done.Load() != d0 {
			return "", false
		}
		buf := make([]byte, 1<<22)
		dump := string(buf[:runtime.Stack(buf, true)])
		for _, g := range strings.Split(dump, "\n\n") {
			// a goroutine that is handling an event: bufHandler.run calling into a handler
			if strings.Contains(g, "alert.(*bufHandler).run") && (strings.Contains(g, ").Handle(") || strings.Contains(g, "[running]") || strings.Contains(g, "[runnable]")) {
				return "", false
			}
		}
	}
	return fmt.Sprintf("%d event(s) enqueued and never handled; counters unchanged over 5 samples, no goroutine inside a handler", e0-d0), true
}

func (tr *Tr) spec(h string, c Cfg) alertservice.HandlerSpec {
	sp := alertservice.HandlerSpec{ID: h, Topic: tr.real(c.Topic), Match: matchExpr[c.Match]}
	if c.Kind == "rec" {
		sp.Kind = "talk"
	} else if c.Kind == "agg" {
		sp.Kind = "aggregate"
		sp.Options = map[string]interface{}{"id": "agg", "interval": 3 * time.Millisecond, "topic": tr.real(c.Targets[0]), "message": "{{ .Count }}"}
	} else {
		sp.Kind = "publish"
		ts := make([]interface{}, len(c.Targets))
		for i, x := range c.Targets {
			ts[i] = tr.real(x)
		}
		sp.Options = map[string]interface{}{"topics": ts}
	}
	return sp
}

func cfgFields(h string, c Cfg) rt.M {
	ts := make([]any, len(c.Targets))
	for i, x := range c.Targets {
		ts[i] = x
	}
	return rt.M{"h": h, "topic": c.Topic, "kind": c.Kind, "match": c.Match, "targets": ts}
}

func (tr *Tr) Register(h string, c Cfg) {
	if tr.dead {
		return
	}
	st := &hstate{cfg: c}
	if c.Kind == "rec" && c.Match == "none" {
		// anonymous handler, as a task's alert node registers them
		// every anonymous recorder is created with the SAME contents (name "anon", nothing recorded yet): two handlers
		// are two registrations because they are two objects, whatever they contain; the driver tells them apart by pointer
		st.rec = rt.NewRecHandler("anon")
		st.anon = true
		tr.svc.S.RegisterAnonHandler(tr.real(c.Topic), st.rec)
	} else {
		if err := tr.svc.S.RegisterHandlerSpec(tr.spec(h, c)); err != nil {
			tr.apiError("RegisterHandlerSpec "+h, err)
			return
		}
		if c.Kind == "rec" {
			st.rec = tr.svc.talk.last
		}
	}
	tr.hs[h] = st
	tr.t.Event("Register", cfgFields(h, c))
}

func (tr *Tr) seenOf(st *hstate) []any {
	out := []any{}
	if st.rec == nil {
		return out
	}
	for _, e := range st.rec.Snapshot() {
		if e.State.ID == "agg" {
			n, err := strconv.Atoi(e.State.Message)
			if err != nil {
				rt.Fatalf("c09: aggregate summary without a count message: %q", e.State.Message)
			}
			out = append(out, []any{tr.model(e.Topic), e.State.ID, int(e.State.Level), int(e.PreviousState().Level), n})
			continue
		}
		out = append(out, []any{tr.model(e.Topic), e.State.ID, int(e.State.Level), int(e.PreviousState().Level)})
	}
	return out
}

func (tr *Tr) Deregister(h string) {
	if tr.dead {
		return
	}
	st := tr.hs[h]
	if st.anon {
		tr.svc.S.DeregisterAnonHandler(tr.real(st.cfg.Topic), st.rec)
	} else if err := tr.svc.S.DeregisterHandlerSpec(tr.real(st.cfg.Topic), h); err != nil {
		tr.apiError("DeregisterHandlerSpec "+h, err)
		return
	}
	tr.quiesce()
	delete(tr.hs, h)
	if st.rec != nil {
		tr.retired = append(tr.retired, retired{st.rec, st.rec.Len()})
	}
	tr.t.Event("Deregister", rt.M{"h": h, "seen": tr.seenOf(st)})
}

// Replace = UpdateHandlerSpec with the same id (spec-based handlers only).
func (tr *Tr) Replace(h string, c Cfg) {
	if tr.dead {
		return
	}
	st := tr.hs[h]
	if st.anon || (c.Kind == "rec" && c.Match == "none") {
		// anonymous handlers have no update; model it as the two API calls it takes
		tr.Deregister(h)
		tr.Register(h, c)
		return
	}
	if err := tr.svc.S.UpdateHandlerSpec(tr.spec(h, st.cfg), tr.spec(h, c)); err != nil {
		tr.apiError("UpdateHandlerSpec "+h, err)
		return
	}
	tr.quiesce()
	ns := &hstate{cfg: c}
	if c.Kind == "rec" {
		ns.rec = tr.svc.talk.last
	}
	f := cfgFields(h, c)
	f["seen"] = tr.seenOf(st)
	tr.hs[h] = ns
	tr.t.Event("Replace", f)
}

func (tr *Tr) Collect(topic, id string, lvl int, k int) { tr.CollectTag(topic, id, lvl, k, "none") }

// collectNoObs: the collect and its trace line only (the caller decides how to wait and what to observe).
func (tr *Tr) collectNoObs(topic, id string, lvl int, k int) {
	if tr.dead {
		return
	}
	ev := alert.Event{Topic: tr.real(topic), State: alert.EventState{ID: id, Level: alert.Level(lvl),
		Time: rt.DefaultTime.T(k), Message: fmt.Sprintf("m%d", k)}}
	ev.Data.Name, ev.Data.TaskName = "m", "tk"
	if err := tr.svc.S.Collect(ev); err != nil {
		// a full handler queue makes Collect report an error while the event is recorded and handed to everybody else
		tr.t.Event("Collect", rt.M{"topic": topic, "id": id, "lvl": lvl, "err": 1})
		return
	}
	tr.t.Event("Collect", rt.M{"topic": topic, "id": id, "lvl": lvl})
}

// CollectTag collects an event that carries tag host=<tag> ("none": no tag at all).
func (tr *Tr) CollectTag(topic, id string, lvl int, k int, tag string) {
	if tr.dead {
		return
	}
	ev := alert.Event{Topic: tr.real(topic), State: alert.EventState{ID: id, Level: alert.Level(lvl),
		Time: rt.DefaultTime.T(k), Message: fmt.Sprintf("m%d", k)}}
	f := rt.M{"topic": topic, "id": id, "lvl": lvl}
	// tag is the event's attribute class (Topics.tla): host tag, name, task name, duration
	ev.Data.Name, ev.Data.TaskName = "m", "tk"
	switch tag {
	case "a", "b":
		ev.Data.Tags = map[string]string{"host": tag}
	case "n":
		ev.Data.Name = "other"
	case "u":
		ev.Data.TaskName = "othertask"
	case "d":
		ev.State.Duration = 5 * time.Second
	case "ad":
		ev.Data.Tags = map[string]string{"host": "a"}
		ev.State.Duration = 5 * time.Second
	}
	if tag != "none" {
		f["tag"] = tag
	}
	if err := tr.svc.S.Collect(ev); err != nil {
		rt.Fatalf("c09: Collect: %v", err)
	}
	tr.t.Event("Collect", f)
	tr.quiesce()
	tr.Obs()
}

// Rename = UpdateHandlerSpec with a NEW id (spec-based handlers only): in model terms the old
// handler is removed and the new one registered; the old recorder is kept as "retired" and must
// never be handed another event.
func (tr *Tr) Rename(old, new string, c Cfg) {
	if tr.dead {
		return
	}
	st := tr.hs[old]
	if st.anon || (c.Kind == "rec" && c.Match == "none") {
		tr.Deregister(old)
		tr.Register(new, c)
		return
	}
	if err := tr.svc.S.UpdateHandlerSpec(tr.spec(old, st.cfg), tr.spec(new, c)); err != nil {
		tr.apiError("UpdateHandlerSpec "+old+">"+new, err)
		return
	}
	tr.quiesce()
	ns := &hstate{cfg: c}
	if c.Kind == "rec" {
		ns.rec = tr.svc.talk.last
	}
	tr.t.Event("Deregister", rt.M{"h": old, "seen": tr.seenOf(st)})
	if st.rec != nil {
		tr.retired = append(tr.retired, retired{st.rec, st.rec.Len()})
	}
	delete(tr.hs, old)
	tr.hs[new] = ns
	tr.t.Event("Register", cfgFields(new, c))
}

// CloseRestore closes a topic (CloseTopic) - the next Collect on it restores it from the store and
// re-registers the handlers the service has on record for it.  Used with events that are all non-OK
// and a persisting service, so that the restored state equals the state before the close.
func (tr *Tr) CloseRestore(topic string) {
	if tr.dead {
		return
	}
	if err := tr.svc.S.CloseTopic(tr.real(topic)); err != nil {
		rt.Fatalf("c09: CloseTopic: %v", err)
	}
	tr.t.Event("CloseRestore", rt.M{"topic": topic})
}

// RestoreNow calls RestoreTopic explicitly (what the task store does when it restarts a task): in model terms nothing
// changes - the topic already holds what the store holds.  The next Collect may restore once more (the closed flag is
// only cleared there); the states must come out right all the same.
func (tr *Tr) RestoreNow(topic string) {
	if tr.dead {
		return
	}
	if err := tr.svc.S.RestoreTopic(tr.real(topic)); err != nil {
		tr.apiError("RestoreTopic "+topic, err)
		return
	}
	tr.t.Event("RestoreNow", rt.M{"topic": topic})
}

// Obs records everything the API reports about both topics and what every recorder has seen.
func (tr *Tr) Obs() {
	if tr.dead {
		return
	}
	state := rt.M{}
	for _, t := range tr.topics {
		o := rt.M{"lvl": 0, "collected": 0, "cur": []any{}, "es": []any{[]any{}, []any{}, []any{}, []any{}}}
		ts, ok, _ := tr.svc.S.TopicState(tr.real(t))
		if ok {
			o["lvl"] = int(ts.Level)
			o["collected"] = int(ts.Collected)
			es := make([]any, 4)
			for m := 0; m < 4; m++ {
				states, err := tr.svc.S.EventStates(tr.real(t), alert.Level(m))
				if err != nil {
					rt.Fatalf("c09: EventStates: %v", err)
				}
				ids := []any{}
				for _, id := range rt.SortedKeys(states) {
					ids = append(ids, id)
				}
				es[m] = ids
				if m == 0 {
					cur := []any{}
					for _, id := range rt.SortedKeys(states) {
						cur = append(cur, []any{id, int(states[id].Level)})
					}
					o["cur"] = cur
				}
			}
			o["es"] = es
			// TopicStates(pattern, min) must agree with TopicState
			for m := 0; m < 4; m++ {
				all, _ := tr.svc.S.TopicStates(tr.real(t), alert.Level(m))
				_, listed := all[tr.real(t)]
				if listed != (int(ts.Level) >= m) {
					o["lvl"] = -100 - m // make the disagreement visible to the spec
				}
			}
		}
		state[t] = o
	}
	seen := rt.M{}
	for h, st := range tr.hs {
		if st.cfg.Kind == "rec" {
			seen[h] = tr.seenOf(st)
		}
	}
	late := 0
	for _, r := range tr.retired {
		late += r.rec.Len() - r.n
	}
	tr.t.Event("Obs", rt.M{"state": state, "seen": seen, "retired": late})
}

// End tears the trace down (publishers first so nothing is in flight).
func (tr *Tr) End() {
	if tr.dead {
		// best-effort cleanup; nothing more is logged for this trace
		for h, st := range tr.hs {
			if st.anon {
				tr.svc.S.DeregisterAnonHandler(tr.real(st.cfg.Topic), st.rec)
			} else {
				tr.svc.S.DeregisterHandlerSpec(tr.real(st.cfg.Topic), h)
			}
		}
		for _, t := range tr.topics {
			tr.svc.S.DeleteTopic(tr.real(t))
		}
		ctxs.Delete(tr.sfx)
		return
	}
	for _, kind := range []string{"publish", "agg", "rec"} {
		for _, h := range rt.SortedKeys(tr.hs) {
			if tr.hs[h].cfg.Kind == kind {
				tr.Deregister(h)
			}
		}
	}
	for _, t := range tr.topics {
		tr.svc.S.DeleteTopic(tr.real(t))
	}
	ctxs.Delete(tr.sfx)
}
