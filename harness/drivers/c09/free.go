package c09

import (
	"fmt"
	"sync"

	"github.com/influxdata/kapacitor/alert"

	"kapverif/rt"
)

func init() {
	rt.Register("c09free", RunFree)
	rt.Register("c09restore", RunRestore)
}

// RunFree: free-running rounds.  k publishers collect one event each on the SAME topic
// concurrently with no gates (released from a barrier); the recorder's observation (events with
// their previous levels, in queue order) and the final topic state must be explainable by SOME
// interleaving of the publishers' Update and Enqueue steps - TLC searches for it.  One-sided: a
// round that cannot be explained is a real violation; absence in all rounds is a pass.
func RunFree(r *rt.Run) error {
	InstallHooks(nil)
	svc, err := NewSvc(false)
	if err != nil {
		return err
	}
	defer svc.Close()
	t := r.NewTrace("free")
	rounds := 600
	if r.Thorough() {
		rounds = 5000
	}
	pn := []string{"p1", "p2", "p3", "p4"}
	for i := 0; i < rounds; i++ {
		tr := svc.Begin(t)
		tr.Register("h1", Cfg{Topic: "t1", Kind: "rec", Match: "none"})
		// an existing state so that previous levels are informative
		tr.Collect("t1", "a", 1+i%3, 0)
		k := 2 + i%3
		evs := make([]step, k)
		start := make(chan struct{})
		var wg sync.WaitGroup
		for p := 0; p < k; p++ {
			// same ID for all (previous-level chain), distinct levels where possible
			evs[p] = step{"a", (i + p) % 4}
			if i%5 == 4 && p == k-1 {
				evs[p].id = "b"
			}
			wg.Add(1)
			go func(p int) {
				defer wg.Done()
				<-start
				ev := alert.Event{Topic: tr.real("t1"), State: alert.EventState{ID: evs[p].id, Level: alert.Level(evs[p].lvl)}}
				if err := svc.S.Collect(ev); err != nil {
					rt.Fatalf("c09free: collect: %v", err)
				}
			}(p)
		}
		close(start)
		wg.Wait()
		for p := 0; p < k; p++ {
			t.Event("Start", rt.M{"p": pn[p], "topic": "t1", "id": evs[p].id, "lvl": evs[p].lvl})
		}
		tr.quiesce()
		tr.Obs()
		tr.End()
		t.Distinct(fmt.Sprintf("free/%d", i))
	}
	r.Finish("free-running rounds: 2-4 publishers released together collect one event each on one topic (same ID) with no gates; TLC searches for an interleaving of their Update/Enqueue steps that explains the recorder's observation and the topic state; distinct by round", false)
	return nil
}

// RunRestore: handler registry across CloseTopic / restore.  A persisting service; spec handlers are
// registered, updated and RENAMED, then the topic is closed and restored by the next collect; the
// handlers on record - and only those - must be handed the later events (retired recorders: nothing).
func RunRestore(r *rt.Run) error {
	InstallHooks(nil)
	svc, err := NewSvc(true)
	if err != nil {
		return err
	}
	defer svc.Close()
	t := r.NewTrace("restore")
	cfgs := []Cfg{{Topic: "t1", Kind: "rec", Match: "changed"}, {Topic: "t1", Kind: "rec", Match: "warn"}, {Topic: "t1", Kind: "rec", Match: "tagA"}}
	n := 0
	for ai, a := range cfgs {
		for bi, b := range cfgs {
			for _, variant := range []string{"rename", "replace", "rename-twice", "deregister"} {
				tr := svc.Begin(t)
				tr.Register("h1", a)
				tr.Register("h2", Cfg{Topic: "t1", Kind: "rec", Match: "warn"}) // spec based: anonymous handlers are not restored by the service
				tr.CollectTag("t1", "a", 2, 0, "a")
				switch variant {
				case "rename":
					tr.Rename("h1", "h3", b)
				case "replace":
					tr.Replace("h1", b)
				case "rename-twice":
					tr.Rename("h1", "h3", b)
					tr.Rename("h3", "h1", a)
				case "deregister":
					tr.Deregister("h1")
				}
				tr.CollectTag("t1", "b", 3, 1, "a")
				tr.CloseRestore("t1") // all stored states are non-OK: the restored topic state is the same
				tr.CollectTag("t1", "a", 3, 2, "a")
				tr.CollectTag("t1", "b", 1, 3, "b")
				tr.End()
				n++
				t.Distinct(fmt.Sprintf("restore/%d/%d/%s", ai, bi, variant))
			}
			// explicit RestoreTopic after the close (a task restart), possibly twice, then the ids recover: a topic restored into
			// a LIVE topic object must not keep anything of the old one (levels, listing)
			for _, variant := range []string{"restore", "restore-twice", "restore-then-collect-restore", "live-restore"} {
				tr := svc.Begin(t)
				tr.Register("h1", a)
				tr.Register("h2", Cfg{Topic: "t1", Kind: "rec", Match: "warn"})
				tr.CollectTag("t1", "a", 3, 0, "a")
				tr.CollectTag("t1", "b", 2, 1, "a")
				tr.CollectTag("t1", "c", 1, 2, "b")
				switch variant {
				case "restore":
					tr.CloseRestore("t1")
					tr.RestoreNow("t1")
				case "restore-twice":
					tr.CloseRestore("t1")
					tr.RestoreNow("t1")
					tr.RestoreNow("t1")
				case "restore-then-collect-restore":
					tr.CloseRestore("t1")
					tr.RestoreNow("t1")
					tr.CollectTag("t1", "b", 3, 3, "a")
					tr.RestoreNow("t1")
				case "live-restore":
					tr.RestoreNow("t1") // no close at all: restore into the live topic
				}
				// everything recovers, one id at a time, then goes up again
				tr.CollectTag("t1", "a", 0, 4, "a")
				tr.CollectTag("t1", "b", 0, 5, "a")
				tr.CollectTag("t1", "c", 0, 6, "b")
				tr.CollectTag("t1", "a", 2, 7, "a")
				tr.End()
				n++
				t.Distinct(fmt.Sprintf("restore-now/%d/%d/%s", ai, bi, variant))
			}
			// the handler registry changes WHILE the topic is closed: the next collect must still restore the stored event
			// states (previous levels, topic level, listing) and hand the event to exactly the handlers then on record
			for _, closedOp := range []string{"reg-spec", "reg-anon", "dereg", "replace", "rename", "reg-spec-other-topic"} {
				tr := svc.Begin(t)
				tr.Register("h1", a)
				tr.Register("h2", Cfg{Topic: "t1", Kind: "rec", Match: "warn"})
				tr.CollectTag("t1", "a", 2, 0, "a")
				tr.CollectTag("t1", "b", 3, 1, "a")
				tr.CloseRestore("t1")
				switch closedOp {
				case "reg-spec":
					tr.Register("h3", b)
				case "reg-anon":
					tr.Register("h3", Cfg{Topic: "t1", Kind: "rec", Match: "none"})
				case "dereg":
					tr.Deregister("h1")
				case "replace":
					tr.Replace("h1", b)
				case "rename":
					tr.Rename("h1", "h3", b)
				case "reg-spec-other-topic":
					tr.Register("h3", Cfg{Topic: "t2", Kind: "rec", Match: "changed"})
				}
				tr.CollectTag("t1", "a", 3, 2, "a")
				tr.CollectTag("t1", "b", 1, 3, "b")
				tr.CollectTag("t1", "c", 2, 4, "a")
				tr.End()
				n++
				t.Distinct(fmt.Sprintf("restore-closed/%d/%d/%s", ai, bi, closedOp))
			}
		}
	}
	r.Finish("persisting alert service: spec handlers registered, updated, renamed or removed, then CloseTopic and restore by the next collect (all stored states non-OK); later events must reach exactly the handlers on record and no retired recorder; distinct by (configs, variant)", true)
	return nil
}
