package c09

// full.go: a publish handler with SEVERAL target topics while collects fail for a reason that has nothing to do with
// delivery: the service persists topic states and its store refuses every write for a while.  Service.Collect then
// returns an error AFTER the event has been recorded and handed to the topic's handlers; in model terms nothing is
// different - every target topic of the publish handler still gets the event (three topics: t1 -> [t2, t3]).

import (
	"errors"
	"fmt"
	"sync/atomic"

	alertservice "github.com/influxdata/kapacitor/services/alert"
	"github.com/influxdata/kapacitor/services/storage"

	"kapverif/rt"
)

func init() { rt.Register("c09full", RunFull) }

// failStore refuses every write transaction of the alert service's stores while fail is set.
type failStore struct {
	*rt.BoltStore
	fail *atomic.Bool
}

func (s failStore) Store(name string) storage.Interface {
	return failIface{in: s.BoltStore.Store(name), fail: s.fail}
}

type failIface struct {
	in   storage.Interface
	fail *atomic.Bool
}

func (i failIface) View(f func(storage.ReadOnlyTx) error) error { return i.in.View(f) }
func (i failIface) Update(f func(storage.Tx) error) error {
	if i.fail.Load() {
		return errors.New("injected: the store refuses writes")
	}
	return i.in.Update(f)
}
func (i failIface) Store(buckets ...[]byte) storage.Interface {
	return failIface{in: i.in.Store(buckets...), fail: i.fail}
}

func RunFull(r *rt.Run) error {
	InstallHooks(nil)
	fail := &atomic.Bool{}
	svc, err := NewSvcWrap(true, func(st *rt.BoltStore) alertservice.StorageService { return failStore{BoltStore: st, fail: fail} })
	if err != nil {
		return err
	}
	defer svc.Close()
	t := r.NewTrace("full")
	lvls := []int{3, 2, 3, 1, 0, 2}
	layouts := [][]string{{"t2", "t3"}, {"t3", "t2"}}
	for li, targets := range layouts {
		for _, match := range []string{"none", "changed"} {
			for _, when := range []string{"always", "middle", "never"} {
				tr := svc.Begin(t)
				tr.topics = []string{"t1", "t2", "t3"}
				tr.Register("hp", Cfg{Topic: "t1", Kind: "publish", Match: match, Targets: targets})
				tr.Register("h2", Cfg{Topic: "t2", Kind: "rec", Match: "none"})
				tr.Register("h3", Cfg{Topic: "t3", Kind: "rec", Match: "none"})
				for k := 0; k < 6; k++ {
					fail.Store(when == "always" || (when == "middle" && k >= 2 && k < 4))
					tr.collectNoObs("t1", []string{"a", "b"}[k%2], lvls[k], k)
					tr.quiesce()
					tr.Obs()
				}
				fail.Store(false)
				tr.End()
				t.Distinct(fmt.Sprintf("full/%d/%s/%s", li, match, when))
			}
		}
	}
	r.Finish("a publish handler with two target topics (both orders) on a persisting service whose store refuses writes always / for the two middle events / never: every collect reports its error only after delivery, every target topic gets every event; observed after every collect; distinct by (layout, match, failure window)", true)
	return nil
}
