package c09

import (
	"fmt"

	"kapverif/rt"
)

var ids = []string{"a", "b", "c"}

type layout map[string]Cfg

var layouts = []layout{
	{"h1": {Topic: "t1", Kind: "rec", Match: "none"}},
	{"h1": {Topic: "t1", Kind: "rec", Match: "changed"}, "h2": {Topic: "t1", Kind: "publish", Match: "none", Targets: []string{"t2"}}, "h3": {Topic: "t2", Kind: "rec", Match: "none"}},
	{"h1": {Topic: "t1", Kind: "rec", Match: "warn"}, "h2": {Topic: "t1", Kind: "publish", Match: "changed", Targets: []string{"t2"}}, "h3": {Topic: "t2", Kind: "rec", Match: "changed"}},
	// three identical anonymous recorders on one topic (two handlers are two registrations because they are two objects)
	{"h1": {Topic: "t1", Kind: "rec", Match: "none"}, "h2": {Topic: "t1", Kind: "rec", Match: "none"}, "h3": {Topic: "t1", Kind: "rec", Match: "none"}},
}

type step struct {
	id  string
	lvl int
}

func init() {
	rt.Register("c09", Run)
	rt.Register("c09conc", RunConc)
}

// Run: B1 systematic enumeration + seeded random histories on the real service.
func Run(r *rt.Run) error {
	InstallHooks(nil)
	svc, err := NewSvc(false)
	if err != nil {
		return err
	}
	defer svc.Close()
	t := r.NewTrace("trace")
	maxLen := 3
	nRandom := 300
	if r.Thorough() {
		maxLen = 4
		nRandom = 3000
	}
	alpha := []step{}
	for _, id := range ids {
		for l := 0; l < 4; l++ {
			alpha = append(alpha, step{id, l})
		}
	}
	// exhaustive: every history of length <= maxLen of collects on t1, per layout
	var rec func(li int, hist []step)
	runOne := func(li int, hist []step) {
		tr := svc.Begin(t)
		for _, h := range rt.SortedKeys(layouts[li]) {
			tr.Register(h, layouts[li][h])
		}
		key := fmt.Sprint(li)
		for k, s := range hist {
			tr.Collect("t1", s.id, s.lvl, k)
			key += fmt.Sprintf(",%s%d", s.id, s.lvl)
		}
		tr.End()
		if len(hist) >= 2 {
			t.Distinct(key)
		}
	}
	rec = func(li int, hist []step) {
		if len(hist) > 0 {
			runOne(li, hist)
		}
		if len(hist) == maxLen {
			return
		}
		for _, s := range alpha {
			rec(li, append(hist, s))
		}
	}
	fullLen := maxLen
	for li := range layouts {
		// full depth on the plain layout, one less on the publish/match layouts
		maxLen = fullLen
		if li > 0 {
			maxLen = fullLen - 1
		}
		rec(li, nil)
	}
	maxLen = fullLen
	// random: registration churn interleaved with collects on both topics
	matches := []string{"none", "changed", "warn", "critchanged", "never", "tagA", "tagAwarn", "nameM", "taskT", "durGt1", "nameMchanged"}
	tags := []string{"none", "a", "b", "a", "none", "n", "u", "d", "ad"}
	randCfg := func() Cfg {
		c := Cfg{Match: matches[r.Rand.Intn(len(matches))]}
		if r.Rand.Intn(3) == 0 {
			c.Topic, c.Kind, c.Targets = "t1", "publish", []string{"t2"}
		} else {
			c.Kind = "rec"
			c.Topic = []string{"t1", "t2"}[r.Rand.Intn(2)]
		}
		return c
	}
	hnames := []string{"h1", "h2", "h3"}
	// Two publish handlers on one topic run in their own goroutines and collect on the target topic concurrently: the
	// target's update order and its handlers' queue order may then differ (Update and Enqueue are two steps), which the
	// specification models for top-level publishers (c09conc, c09free) but not for publish handlers, whose step is atomic
	// in Topics.tla.  The random histories therefore keep at most ONE publish handler registered at a time.
	onePublisher := func(tr *Tr, self string, c Cfg) Cfg {
		if c.Kind != "publish" {
			return c
		}
		for h, st := range tr.hs {
			if h != self && st.cfg.Kind == "publish" {
				return Cfg{Topic: c.Topic, Kind: "rec", Match: c.Match}
			}
		}
		return c
	}
	for i := 0; i < nRandom; i++ {
		tr := svc.Begin(t)
		n := 6 + r.Rand.Intn(10)
		key := "r"
		for k := 0; k < n; k++ {
			h := hnames[r.Rand.Intn(3)]
			switch x := r.Rand.Intn(10); {
			case x < 6:
				tp := "t1"
				if r.Rand.Intn(4) == 0 {
					tp = "t2"
				}
				s := alpha[r.Rand.Intn(len(alpha))]
				tg := tags[r.Rand.Intn(len(tags))]
				tr.CollectTag(tp, s.id, s.lvl, k, tg)
				key += fmt.Sprintf(",%s%s%d%s", tp, s.id, s.lvl, tg)
			case x < 8:
				if _, ok := tr.hs[h]; !ok {
					c := onePublisher(tr, h, randCfg())
					tr.Register(h, c)
					key += fmt.Sprintf(",R%s%v", h, c)
				} else {
					tr.Deregister(h)
					key += ",D" + h
				}
			default:
				if st, ok := tr.hs[h]; ok {
					c := randCfg()
					c.Topic = st.cfg.Topic
					if c.Topic == "t2" {
						c.Kind, c.Targets = "rec", nil
					}
					c = onePublisher(tr, h, c)
					// half of the updates also rename the handler (to a currently unused name)
					newName := ""
					if r.Rand.Intn(2) == 0 {
						for _, cand := range hnames {
							if _, used := tr.hs[cand]; !used {
								newName = cand
							}
						}
					}
					if newName != "" {
						tr.Rename(h, newName, c)
						key += fmt.Sprintf(",N%s>%s%v", h, newName, c)
					} else {
						tr.Replace(h, c)
						key += fmt.Sprintf(",U%s%v", h, c)
					}
				}
			}
		}
		tr.End()
		t.Distinct(key)
	}
	r.Extra["layouts"] = len(layouts)
	r.Extra["max_history_len"] = maxLen
	r.Extra["random_histories"] = nRandom
	r.Finish("every history of collects (3 IDs x 4 levels) up to the length bound on the real alert service for 3 handler layouts (anonymous recorder; match+publish chains), then seeded random histories mixing collects on two topics with handler register/deregister/update; non-trivial = history with >= 2 operations, distinct by operation sequence", false)
	return nil
}
