package c09

import (
	"fmt"
	"sync"

	"github.com/influxdata/kapacitor/alert"

	"kapverif/rt"
)

// RunConc: B3.  Two real publisher goroutines collect on topic t1; the
// topic.updated hook (between updateEvent and handleEvent) is a gate, so the
// driver forces every interleaving of {Update, Enqueue} steps that TLC
// explores in Topics.tla, and the trace spec replays exactly that order.
func RunConc(r *rt.Run) error {
	type gateKey struct{ topic, id string }
	var mu sync.Mutex
	arrived := map[gateKey]chan struct{}{} // closed by hook when the publisher reached the gate
	release := map[gateKey]chan struct{}{} // closed by the scheduler to let it continue
	InstallHooks(func(point string, args ...string) {
		if point != "topic.updated" {
			return
		}
		k := gateKey{args[0], args[1]}
		mu.Lock()
		a, ok := arrived[k]
		rel := release[k]
		mu.Unlock()
		if !ok {
			return // nested collect of a publish handler, or a sequential trace: no gate
		}
		close(a)
		<-rel
	})
	svc, err := NewSvc(false)
	if err != nil {
		return err
	}
	defer svc.Close()
	t := r.NewTrace("conc")

	lay := layouts[1:]
	// each publisher collects 2 events; IDs overlap so previous-level chains cross publishers
	type ev struct {
		id  string
		lvl int
	}
	progs := [][2][]ev{
		{{{"a", 3}, {"a", 0}}, {{"a", 2}, {"b", 1}}},
		{{{"a", 1}, {"b", 3}}, {{"b", 0}, {"a", 1}}},
	}
	if r.Thorough() {
		for i := 0; i < 12; i++ {
			var p [2][]ev
			for k := 0; k < 2; k++ {
				for j := 0; j < 2; j++ {
					p[k] = append(p[k], ev{ids[r.Rand.Intn(2)], r.Rand.Intn(4)})
				}
			}
			progs = append(progs, p)
		}
	}
	// all interleavings of the step sequences U1 E1 U2 E2 of p1 and of p2
	var scheds [][]int
	var gen func(cur []int, a, b int)
	gen = func(cur []int, a, b int) {
		if a == 4 && b == 4 {
			scheds = append(scheds, append([]int(nil), cur...))
			return
		}
		if a < 4 {
			gen(append(cur, 0), a+1, b)
		}
		if b < 4 {
			gen(append(cur, 1), a, b+1)
		}
	}
	gen(nil, 0, 0)
	pn := []string{"p1", "p2"}
	for li, l := range lay {
		for pi, prog := range progs {
			for si, sched := range scheds {
				tr := svc.Begin(t)
				for _, h := range rt.SortedKeys(l) {
					tr.Register(h, l[h])
				}
				// per publisher: a goroutine executing its collects one at a time on request
				type pub struct {
					start chan int
					done  chan struct{}
				}
				pubs := [2]*pub{}
				for k := 0; k < 2; k++ {
					pb := &pub{start: make(chan int), done: make(chan struct{})}
					pubs[k] = pb
					go func(k int, pb *pub) {
						for j := range pb.start {
							e := prog[k][j]
							ae := alert.Event{Topic: tr.real("t1"), State: alert.EventState{ID: e.id, Level: alert.Level(e.lvl), Message: fmt.Sprintf("%s-%d", pn[k], j)}}
							if err := svc.S.Collect(ae); err != nil {
								rt.Fatalf("c09conc: collect: %v", err)
							}
							pb.done <- struct{}{}
						}
					}(k, pb)
				}
				step := [2]int{}
				// NOTE: gate keys are (topic,id); two publishers may be parked on the same id,
				// so keys are made unique by arming the gate right before each Update step.
				for _, k := range sched {
					j := step[k] / 2
					e := prog[k][j]
					key := gateKey{tr.real("t1"), e.id}
					if step[k]%2 == 0 {
						// Update step: the other publisher is never between arm and arrival here
						mu.Lock()
						a, rel := make(chan struct{}), make(chan struct{})
						if old, busy := release[key]; busy {
							// the other publisher is parked on the same key: keep its release channel aside
							release[gateKey{key.topic, key.id + "#parked"}] = old
						}
						arrived[key], release[key] = a, rel
						mu.Unlock()
						pubs[k].start <- j
						<-a
						mu.Lock()
						delete(arrived, key)
						// move this publisher's release channel to a private key
						release[gateKey{key.topic, fmt.Sprintf("%s#%d", e.id, k)}] = rel
						if old, ok := release[gateKey{key.topic, key.id + "#parked"}]; ok {
							release[key] = old
							delete(release, gateKey{key.topic, key.id + "#parked"})
						} else {
							delete(release, key)
						}
						mu.Unlock()
						t.Event("Upd", rt.M{"p": pn[k], "topic": "t1", "id": e.id, "lvl": e.lvl})
					} else {
						pk := gateKey{key.topic, fmt.Sprintf("%s#%d", e.id, k)}
						mu.Lock()
						rel := release[pk]
						delete(release, pk)
						mu.Unlock()
						close(rel)
						<-pubs[k].done
						t.Event("Enq", rt.M{"p": pn[k]})
					}
					step[k]++
				}
				close(pubs[0].start)
				close(pubs[1].start)
				tr.quiesce()
				tr.Obs()
				tr.End()
				t.Distinct(fmt.Sprintf("%d/%d/%d", li, pi, si))
			}
		}
	}
	r.Extra["schedules_per_program"] = len(scheds)
	r.Finish("two real publisher goroutines, 2 collects each on one topic, forced through all 70 interleavings of their Update/Enqueue steps by the topic.updated gate, for match/publish handler layouts; distinct by (layout, program, schedule)", !r.Thorough())
	return nil
}
