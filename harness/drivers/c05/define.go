package c05

import (
	"context"
	"encoding/binary"
	"encoding/json"
	"fmt"
	"os"
	"os/exec"
	"path/filepath"
	"runtime"
	"strings"
	"sync"
	"syscall"
	"time"

	"github.com/influxdata/kapacitor"
	"github.com/influxdata/kapacitor/tick/ast"
	"github.com/influxdata/kapacitor/tick/stateful"
	"github.com/influxdata/kapacitor/timer"

	"kapverif/rt"
)

func init() {
	rt.Register("c05define", RunDefine)
	rt.Register("c05definefam", RunDefineFamily)
}

// token alphabet: every sequence up to the length bound is offered as a TICKscript
var tokens = []string{
	"stream", "batch", "\n|from()", "\n|query('SELECT x FROM db.rp.m')", ".measurement('m')", "\n|where(lambda: \"x\" > 1)", "\n|eval(lambda: \"x\" + 1)", ".as('y')",
	"\n|window()", ".period(1s)", ".every(1s)", "\n|log()", "\n|alert()", ".crit(lambda: TRUE)", "\n|groupBy('g')", "\n|count('x')", "\n|join(", ")", "(", "var a = ", "a", "lambda:",
	"'s'", "\"f\"", "1", "1.0", "1s", "/r/", ",", "|", ".", "@", "+", "-", "AND", "!", "TRUE", "*", "==", "=~", "\n", "//c\n", "'''", "\\", "'", "\"", "/", " ", "0x", "9223372036854775808", "1e999", "\x00",
}

type tally struct{ n, tasks, errs, panics, hangs, ran int }

func defineOne(env *rt.Env, id, src string, run bool, t *tally, bad *[]string) {
	if hung.Load() {
		return
	}
	t.n++
	progress.Add(1)
	cur.Store(&src)
	setCur(src)
	type res struct {
		task *kapacitor.Task
		err  error
		pan  any
	}
	ch := make(chan res, 1)
	go func() {
		var r res
		defer func() {
			if x := recover(); x != nil {
				r.pan = x
			}
			ch <- r
		}()
		tt := kapacitor.StreamTask
		if strings.HasPrefix(src, "batch") {
			tt = kapacitor.BatchTask
		}
		r.task, r.err = env.TM.NewTask(id, src, tt, rt.DefaultDBRP, 0, nil)
	}()
	select {
	case r := <-ch:
		switch {
		case r.pan != nil:
			t.panics++
			*bad = append(*bad, fmt.Sprintf("panic %v on %q", r.pan, src))
		case r.err != nil:
			t.errs++
		default:
			t.tasks++
			if run && r.task.Type == kapacitor.StreamTask {
				runOne(env, r.task, t, bad)
			}
		}
	case <-time.After(20 * time.Second):
		t.hangs++
		hung.Store(true)
		*bad = append(*bad, fmt.Sprintf("hang on %q", src))
	}
}

// runOne starts an accepted task, feeds it one point of every field type and stops it.
func runOne(env *rt.Env, task *kapacitor.Task, t *tally, bad *[]string) {
	done := make(chan any, 1)
	go func() {
		defer func() { done <- recover() }()
		if _, err := env.TM.StartTask(task); err != nil {
			return
		}
		// the same point twice (a node sees the same failure twice in a row), then one of other kinds
		for k := 1; k <= 2; k++ {
			env.Write("db", "rp", rt.MustPoint("m", map[string]string{"g": "a"}, map[string]any{"x": int64(0), "f": 1.5, "s": "str", "b": true}, rt.DefaultTime.T(k)))
		}
		env.Write("db", "rp", rt.MustPoint("m", map[string]string{"g": "b"}, map[string]any{"x": 2.5, "f": int64(3), "s": true, "value": "v"}, rt.DefaultTime.T(3)))
		// points without any tag, twice in a row
		for k := 4; k <= 5; k++ {
			env.Write("db", "rp", rt.MustPoint("m", nil, map[string]any{"x": int64(k), "f": 0.5}, rt.DefaultTime.T(k)))
		}
		env.WaitIngress() // WritePoints only enqueues: the point is on the task's source edge once the ingest has forked it
		env.TM.StopTask(task.ID)
		if strictRun {
			// pipelines made of from/where/eval/log only: nothing but the point can make a node fail, and a point may
			// cause an error for that point at most
			if e, _ := env.Diag.StoppedWithError(task.ID); e != "" {
				panic(fmt.Sprintf("the task was killed by a point: %s", e))
			}
		}
	}()
	select {
	case x := <-done:
		t.ran++
		if x != nil {
			t.panics++
			*bad = append(*bad, fmt.Sprintf("panic %v running %q", x, task.ID))
		}
	case <-time.After(30 * time.Second):
		t.hangs++
		*bad = append(*bad, fmt.Sprintf("hang running %q", task.ID))
	}
}

// strictRun: a started task that ends with an error counts as a panic (set by families whose pipelines cannot fail for
// any reason other than the data).
var strictRun bool

func lambdaOne(src string, t *tally, bad *[]string) {
	if hung.Load() {
		return
	}
	t.n++
	setCur(src)
	defer func() {
		if x := recover(); x != nil {
			t.panics++
			*bad = append(*bad, fmt.Sprintf("panic %v on lambda %q", x, src))
		}
	}()
	l, err := ast.ParseLambda(src)
	if err != nil {
		t.errs++
		return
	}
	e, err := stateful.NewExpression(l.Expression)
	if err != nil {
		t.errs++
		return
	}
	t.tasks++
	sc := stateful.NewScope()
	for _, vals := range [][2]any{{int64(0), "a"}, {1.5, ""}, {"s", int64(-1)}, {true, 2.0}, {time.Second, time.Unix(0, 0)}} {
		sc.Set("x", vals[0])
		sc.Set("f", vals[1])
		e.Type(sc) // what EvalPredicate (where, alert, stateDuration, stateCount) does before evaluating
		e.Eval(sc)
		e.EvalBool(sc)
	}
}

// famFnCall: every built-in function called with 0..6 arguments of every kind (all arguments of one kind, and the first
// argument of every other kind), through the expression API the nodes use and - for a sample - inside a running task.
func famFnCall(r *rt.Run, env *rt.Env, emit emitFn) {
	names := []string{"bool", "int", "float", "string", "duration", "abs", "atan2", "pow", "pow10", "jn", "max", "min", "mod", "sqrt", "floor",
		"strContains", "strCount", "strIndex", "strLength", "strReplace", "strSubstring", "strToLower", "strTrim", "regexReplace", "isPresent",
		"unixNano", "minute", "hour", "weekday", "day", "month", "year", "now", "humanBytes", "if", "sigma", "count", "spread", "rand", "nosuch"}
	args := []string{"1.0", "1", "'s'", "TRUE", "1s", "\"x\"", "\"f\"", "/r/", "\"missing\"", "-1", "0"}
	nTask := 0
	strictRun = true
	defer func() { strictRun = false }()
	for _, fn := range names {
		var t tally
		var bad []string
		for n := 0; n <= 6; n++ {
			for ai, a := range args {
				for bi, b := range args {
					if n == 0 && (ai > 0 || bi > 0) {
						continue
					}
					if n == 1 && bi > 0 {
						continue
					}
					// first argument a, all others b
					list := make([]string, n)
					for i := range list {
						list[i] = b
					}
					if n > 0 {
						list[0] = a
					}
					call := fn + "(" + strings.Join(list, ", ") + ")"
					for _, src := range []string{call, call + " == 1", call + " > 1.0 AND TRUE"} {
						lambdaOne(src, &t, &bad)
					}
					// inside a running task: the predicate path of where() and the expression path of eval()
					if ai == bi && (n%2 == 1 || n == 6) || r.Thorough() && ai <= 1 {
						nTask++
						var dt tally
						defineOne(env, fmt.Sprintf("fc%d", nTask), "stream\n|from()\n|where(lambda: "+call+" == 1 OR TRUE)\n|eval(lambda: "+call+").as('r')\n|log()\n", true, &dt, &bad)
						// and as the predicate itself (EvalPredicate asks for the type of the top-level call)
						nTask++
						defineOne(env, fmt.Sprintf("fc%d", nTask), "stream\n|from()\n|where(lambda: "+call+")\n|log()\n", true, &dt, &bad)
						t.panics += dt.panics
						t.hangs += dt.hangs
						t.ran += dt.ran
					}
				}
			}
		}
		emit("fncall", 6, fn, t, bad)
	}
}

var lambdaTokens = []string{"\"x\"", "\"f\"", "1", "0", "1.0", "'s'", "1s", "/r/", "TRUE", "+", "-", "*", "/", "%", "==", "!=", "<", "=~", "AND", "OR", "!", "(", ")", ",",
	"int(", "float(", "string(", "strSubstring(", "strIndex(", "count(", "sigma(", "if(", "abs(", "duration(", "pow(", "strLength(", "hour(", "isPresent(", "humanBytes("}

type realTiming struct{}

func (realTiming) NewTimer(v timer.Setter) timer.Timer { return timer.New(1.0, 10, v) }

type emitFn func(kind string, length int, first string, t tally, bad []string)

// famTick: every sequence of TICKscript tokens up to the length bound through TaskMaster.NewTask.
func famTick(r *rt.Run, env *rt.Env, emit emitFn) {
	maxLen := 3
	if r.Thorough() {
		maxLen = 4
	}
	n := 0
	for length := 1; length <= maxLen; length++ {
		for fi, first := range tokens {
			if length == maxLen && maxLen == 4 && !(first == "stream" || first == "batch" || first == "var a = ") {
				continue // length 4: only sequences that can start a script
			}
			var t tally
			var bad []string
			idx := make([]int, length)
			idx[0] = fi
			for {
				var sb strings.Builder
				for _, k := range idx {
					sb.WriteString(tokens[k])
				}
				n++
				defineOne(env, fmt.Sprintf("d%d", n), sb.String(), r.Thorough() || n%7 == 0, &t, &bad)
				// next (positions 1..)
				p := length - 1
				for p >= 1 {
					idx[p]++
					if idx[p] < len(tokens) {
						break
					}
					idx[p] = 0
					p--
				}
				if p < 1 {
					break
				}
			}
			emit("tick", length, strings.TrimSpace(first), t, bad)
		}
	}
	r.Extra["token_alphabet"] = len(tokens)
	r.Extra["max_len"] = maxLen
}

// famLambda: every sequence of lambda tokens parsed, compiled and evaluated on 5 scopes.
func famLambda(r *rt.Run, env *rt.Env, emit emitFn) {
	lamLen := 3
	if r.Thorough() {
		lamLen = 4
	}
	for length := 1; length <= lamLen; length++ {
		for fi, first := range lambdaTokens {
			var t tally
			var bad []string
			idx := make([]int, length)
			idx[0] = fi
			for {
				src := ""
				depth := 0
				for _, k := range idx {
					src += lambdaTokens[k] + " "
					depth += strings.Count(lambdaTokens[k], "(") - strings.Count(lambdaTokens[k], ")")
				}
				for ; depth > 0; depth-- {
					src += ")"
				}
				lambdaOne(src, &t, &bad)
				p := length - 1
				for p >= 1 {
					idx[p]++
					if idx[p] < len(lambdaTokens) {
						break
					}
					idx[p] = 0
					p--
				}
				if p < 1 {
					break
				}
			}
			emit("lambda", length, first, t, bad)
		}
	}
	r.Extra["lambda_alphabet"] = len(lambdaTokens)
}

// famUnicode: syntax errors at every distance from trailing multi-byte text (error messages quote a snippet of the
// script around the offending token)
func famUnicode(r *rt.Run, env *rt.Env, emit emitFn) {
	var t tally
	var bad []string
	k := 0
	for _, base := range []string{") ", "| ", "var x = ) ", "stream|from(", "stream\n|from()\n.measurement(", "var s = 'a' + + "} {
		for _, tail := range []string{"é", "→", "😀", "é→😀", "aé", "😀b"} {
			for pad := 0; pad <= 16; pad++ {
				for _, sep := range []string{"// ", "'", ""} {
					k++
					defineOne(env, fmt.Sprintf("u%d", k), base+sep+strings.Repeat("a", pad)+tail, false, &t, &bad)
					lambdaOne(base+sep+strings.Repeat("a", pad)+tail, &t, &bad)
				}
			}
		}
	}
	emit("unicode-tail", 0, "syntax error before multi-byte text", t, bad)
}

func famMutants(r *rt.Run, env *rt.Env, emit emitFn) {
	nMut := 3000
	if r.Thorough() {
		nMut = 40000
	}
	runMutants(r, env, nMut, emit)
	r.Extra["corpus_mutants"] = nMut
}

// famNodes: every data-path node kind in a plain, valid pipeline, run strictly: nothing but the points can make a node
// fail, and the points (same point twice, other kinds, no tags at all) may cause errors for those points at most.
var strictPipes = []string{
	"|groupBy(*)", "|groupBy('g')", "|groupBy('g')\n|groupBy('g')", "|groupBy(*)\n|groupBy('g')\n|groupBy(*)", "|groupBy('nosuch')", "|groupBy('g').byMeasurement()",
	"|where(lambda: \"x\" > 0)", "|eval(lambda: \"x\" * 2).as('y')", "|eval(lambda: \"x\" / 0).as('y')", "|default().field('z', 1).tag('t', 'v')", "|delete().field('x').tag('g')",
	"|derivative('x')", "|derivative('f').nonNegative().unit(1s)", "|changeDetect('x')", "|stateCount(lambda: \"x\" > 0)", "|stateDuration(lambda: \"x\" > 0)",
	"|shift(5s)", "|sample(2)", "|sample(2s)", "|window().period(2s).every(1s)\n|count('x')", "|window().periodCount(2).everyCount(1)\n|mean('x')",
	"|window().period(2s).every(2s)\n|max('x')\n|eval(lambda: \"max\" + 1).as('m')", "|groupBy('g')\n|window().period(2s).every(1s).align()\n|sum('f')", "|cumulativeSum('x')", "|difference('x')",
	"|elapsed('x', 1s)", "|movingAverage('x', 2)", "|flatten().on('g')", "|groupBy('g')\n|combine(lambda: \"g\" == 'a', lambda: \"g\" == 'b').as('a', 'b').tolerance(1s)",
	"|barrier().idle(1s)", "|barrier().period(1s)", "|stats(1h)", "|window().period(1s).every(1s)\n|top(1, 'x')", "|window().period(1s).every(1s)\n|percentile('x', 50.0)",
	"|window().period(1s).every(1s)\n|distinct('x')", "|window().period(1s).every(1s)\n|spread('x')", "|window().period(1s).every(1s)\n|stddev('x')", "|window().period(1s).every(1s)\n|first('x')\n|last('first')",
}

func famNodes(r *rt.Run, env *rt.Env, emit emitFn) {
	strictRun = true
	defer func() { strictRun = false }()
	n := 0
	for _, from := range []string{"stream\n|from()", "stream\n|from().groupBy('g')", "stream\n|from().groupBy(*)", "stream\n|from().measurement('m').groupBy('g').where(lambda: \"x\" >= 0)"} {
		var t tally
		var bad []string
		for _, p := range strictPipes {
			n++
			defineOne(env, fmt.Sprintf("np%d", n), from+"\n"+p+"\n|log()\n", true, &t, &bad)
			// and two of them chained
			n++
			defineOne(env, fmt.Sprintf("np%d", n), from+"\n"+p+"\n"+strictPipes[(n*7)%len(strictPipes)]+"\n|log()\n", true, &t, &bad)
		}
		emit("nodes", len(strictPipes), strings.ReplaceAll(from, "\n", ""), t, bad)
	}
}

var families = []struct {
	name string
	fn   func(r *rt.Run, env *rt.Env, emit emitFn)
}{
	{"tick", famTick}, {"lambda", famLambda}, {"unicode", famUnicode}, {"bytes", famBytes}, {"bytesctx", famBytesCtx},
	{"mutants", famMutants}, {"vars", famVars}, {"pjson", famPJSON}, {"write", famWrite}, {"fncall", famFnCall}, {"runes", famRunes}, {"nodes", famNodes},
}

// ---- the input being processed, visible to the parent after a process-fatal outcome ----

var curMap []byte

func openCur(dir string) {
	f, err := os.OpenFile(filepath.Join(dir, "cur"), os.O_RDWR|os.O_CREATE|os.O_TRUNC, 0o644)
	if err != nil {
		rt.Fatalf("c05define: %v", err)
	}
	defer f.Close()
	if err := f.Truncate(4096); err != nil {
		rt.Fatalf("c05define: %v", err)
	}
	curMap, err = syscall.Mmap(int(f.Fd()), 0, 4096, syscall.PROT_READ|syscall.PROT_WRITE, syscall.MAP_SHARED)
	if err != nil {
		rt.Fatalf("c05define: mmap: %v", err)
	}
}

// setCur records the input about to be processed in a shared file mapping (survives the death of the process).
func setCur(s string) {
	if curMap == nil {
		return
	}
	n := len(s)
	if n > 4000 {
		n = 4000
	}
	binary.LittleEndian.PutUint32(curMap[0:4], uint32(n))
	copy(curMap[4:], s[:n])
}

func readCur(dir string) string {
	b, err := os.ReadFile(filepath.Join(dir, "cur"))
	if err != nil || len(b) < 4 {
		return ""
	}
	n := int(binary.LittleEndian.Uint32(b[0:4]))
	if n > len(b)-4 {
		n = len(b) - 4
	}
	return string(b[4 : 4+n])
}

// RunDefineFamily (child process): one family of definitions; outcome per definition ∈ {task, error}; a panic that
// can be recovered, a hang and goroutine growth are recorded; a process-fatal input ends the process (seen by the parent).
func RunDefineFamily(r *rt.Run) error {
	if len(r.Args) != 1 {
		rt.Fatalf("c05definefam: want one family name")
	}
	openCur(r.OutDir)
	env, err := rt.NewEnv(rt.EnvOpts{})
	if err != nil {
		return err
	}
	defer env.Close()
	// the daemon installs a sampling timer for every node (server.go); NewTaskMaster's default is a no-op.  With a
	// sample rate of 1 every node call is timed, so a Start without its Stop shows at the next message.
	env.TM.TimingService = realTiming{}
	tr := r.NewTrace("define")
	g0 := runtime.NumGoroutine()
	emit := func(kind string, length int, first string, t tally, bad []string) {
		tr.Reset(nil)
		sample := []any{}
		for i, b := range bad {
			if i < 5 {
				sample = append(sample, b)
			}
		}
		tr.Event("DefineBatch", rt.M{"kind": kind, "len": length, "first": first, "n": t.n, "tasks": t.tasks, "errors": t.errs,
			"panics": t.panics, "hangs": t.hangs, "ran": t.ran, "bad": sample})
		if t.tasks > 0 {
			tr.Distinct(fmt.Sprintf("%s/%d/%s", kind, length, first))
		}
		tr.Flush()
	}
	found := false
	for _, f := range families {
		if f.name == r.Args[0] {
			f.fn(r, env, emit)
			found = true
		}
	}
	if !found {
		rt.Fatalf("c05definefam: unknown family %q", r.Args[0])
	}
	if hung.Load() {
		// a parse never came back: its goroutine is still running; report what there is and end the process
		r.Finish("one family of definitions (ended early: a definition hung)", true)
		os.Exit(0)
	}
	// goroutine growth over the whole run (definitions must not leak goroutines)
	deadline := time.Now().Add(10 * time.Second)
	g1 := runtime.NumGoroutine()
	for g1 > g0+2 && time.Now().Before(deadline) {
		time.Sleep(10 * time.Millisecond)
		g1 = runtime.NumGoroutine()
	}
	if f := os.Getenv("C05_STACKS"); f != "" && g1 > g0+2 {
		buf := make([]byte, 1<<24)
		os.WriteFile(f, buf[:runtime.Stack(buf, true)], 0o644)
	}
	tr.Reset(nil)
	tr.Event("Goroutines", rt.M{"before": g0, "after": g1, "family": r.Args[0]})
	r.Finish("one family of definitions", true)
	return nil
}

// RunDefine (parent): every family of definitions in its own child process, so that a process-fatal definition is an
// exit status attributed to an input, not a dead harness.  The children's trace lines are copied into one trace; a
// child that died contributes a DefineBatch line with panics = 1 naming the input it was processing.
func RunDefine(r *rt.Run) error {
	self, err := os.Executable()
	if err != nil {
		return err
	}
	type res struct {
		lines []map[string]any
		extra map[string]any
		died  string
	}
	results := make([]res, len(families))
	sem := make(chan struct{}, 6)
	var wg sync.WaitGroup
	for i, f := range families {
		i, f := i, f
		wg.Add(1)
		go func() {
			defer wg.Done()
			sem <- struct{}{}
			defer func() { <-sem }()
			dir := filepath.Join(r.OutDir, "fam-"+f.name)
			os.MkdirAll(dir, 0o755)
			ctx, cancel := context.WithTimeout(context.Background(), 50*time.Minute)
			defer cancel()
			cmd := exec.CommandContext(ctx, self, "c05definefam", "-out", dir, "-tier", r.Tier, "-seed", fmt.Sprint(r.Seed), f.name)
			outb, err := cmd.CombinedOutput()
			if ctx.Err() != nil {
				rt.Fatalf("c05define: family %s did not finish in 50 min:\n%s", f.name, tail(string(outb)))
			}
			if exit, ok := err.(*exec.ExitError); ok && exit.ExitCode() == 2 && containsHarnessError(string(outb)) {
				rt.Fatalf("c05define: harness error in family %s:\n%s", f.name, tail(string(outb)))
			}
			var x res
			if b, rerr := os.ReadFile(filepath.Join(dir, "define.ndjson")); rerr == nil {
				for _, ln := range strings.Split(string(b), "\n") {
					if strings.TrimSpace(ln) == "" {
						continue
					}
					var m map[string]any
					if json.Unmarshal([]byte(ln), &m) == nil {
						x.lines = append(x.lines, m)
					}
				}
			}
			if err != nil {
				// the process died: Go runtime panic / fatal error (exit status 2), signal, os.Exit in library code
				x.died = fmt.Sprintf("the process died (%v) while processing %q: %s", err, readCur(dir), firstFatalLine(string(outb)))
			} else if b, rerr := os.ReadFile(filepath.Join(dir, "meta.json")); rerr == nil {
				var m struct {
					Extra map[string]any `json:"extra"`
				}
				if json.Unmarshal(b, &m) == nil {
					x.extra = m.Extra
				}
			}
			results[i] = x
			os.RemoveAll(dir)
		}()
	}
	wg.Wait()
	tr := r.NewTrace("define")
	for i, x := range results {
		for _, m := range x.lines {
			ev, _ := m["ev"].(string)
			delete(m, "ev")
			if ev == "Reset" {
				tr.Reset(nil)
				continue
			}
			tr.Event(ev, rt.M(m))
			if ev == "DefineBatch" {
				if n, _ := m["tasks"].(float64); n > 0 {
					tr.Distinct(fmt.Sprintf("%v/%v/%v", m["kind"], m["len"], m["first"]))
				}
			}
		}
		if x.died != "" {
			tr.Reset(nil)
			tr.Event("DefineBatch", rt.M{"kind": families[i].name, "len": 0, "first": "process died", "n": 1, "tasks": 0, "errors": 0,
				"panics": 1, "hangs": 0, "ran": 0, "bad": []any{x.died}})
		}
		for k, v := range x.extra {
			r.Extra[k] = v
		}
	}
	r.Extra["families"] = len(families)
	r.Finish("every sequence of TICKscript tokens up to the length bound offered to TaskMaster.NewTask (accepted stream tasks are started, fed one point and stopped), every sequence of lambda tokens parsed, compiled and evaluated on 5 scopes, every byte string over the lexer's byte alphabet up to the length bound alone and inside every lexer context, template/vars documents and task documents through the task store's HTTP handlers, mutated pipeline JSON documents, seeded token mutations of real scripts; one child process per family; batches grouped by (kind, length, first token); non-trivial = a batch in which at least one definition was accepted", true)
	return nil
}

func firstFatalLine(out string) string {
	for _, ln := range strings.Split(out, "\n") {
		if strings.HasPrefix(ln, "panic:") || strings.HasPrefix(ln, "fatal error:") || strings.HasPrefix(ln, "runtime:") || strings.Contains(ln, "signal ") {
			if len(ln) > 300 {
				ln = ln[:300]
			}
			return ln
		}
	}
	return tail(out)
}
