package c05

import (
	"fmt"
	"os"
	"runtime"
	"strings"
	"time"

	"github.com/influxdata/kapacitor"
	"github.com/influxdata/kapacitor/tick/ast"
	"github.com/influxdata/kapacitor/tick/stateful"

	"kapverif/rt"
)

func init() { rt.Register("c05define", RunDefine) }

// dbg, when C05_DEBUG names a file, receives the lambda about to be evaluated (to identify a process-fatal input).
var dbg *os.File

// token alphabet: every sequence up to the length bound is offered as a TICKscript
var tokens = []string{
	"stream", "batch", "\n|from()", "\n|query('SELECT x FROM db.rp.m')", ".measurement('m')", "\n|where(lambda: \"x\" > 1)", "\n|eval(lambda: \"x\" + 1)", ".as('y')",
	"\n|window()", ".period(1s)", ".every(1s)", "\n|log()", "\n|alert()", ".crit(lambda: TRUE)", "\n|groupBy('g')", "\n|count('x')", "\n|join(", ")", "(", "var a = ", "a", "lambda:",
	"'s'", "\"f\"", "1", "1.0", "1s", "/r/", ",", "|", ".", "@", "+", "-", "AND", "!", "TRUE", "*", "==", "=~", "\n", "//c\n", "'''", "\\", "'", "\"", "/", " ", "0x", "9223372036854775808", "1e999", "\x00",
}

type tally struct{ n, tasks, errs, panics, hangs, ran int }

func defineOne(env *rt.Env, id, src string, run bool, t *tally, bad *[]string) {
	t.n++
	type res struct {
		task *kapacitor.Task
		err  error
		pan  any
	}
	ch := make(chan res, 1)
	go func() {
		var r res
		defer func() {
			if x := recover(); x != nil {
				r.pan = x
			}
			ch <- r
		}()
		tt := kapacitor.StreamTask
		if strings.HasPrefix(src, "batch") {
			tt = kapacitor.BatchTask
		}
		r.task, r.err = env.TM.NewTask(id, src, tt, rt.DefaultDBRP, 0, nil)
	}()
	select {
	case r := <-ch:
		switch {
		case r.pan != nil:
			t.panics++
			*bad = append(*bad, fmt.Sprintf("panic %v on %q", r.pan, src))
		case r.err != nil:
			t.errs++
		default:
			t.tasks++
			if run && r.task.Type == kapacitor.StreamTask {
				runOne(env, r.task, t, bad)
			}
		}
	case <-time.After(20 * time.Second):
		t.hangs++
		*bad = append(*bad, fmt.Sprintf("hang on %q", src))
	}
}

// runOne starts an accepted task, feeds it one point of every field type and stops it.
func runOne(env *rt.Env, task *kapacitor.Task, t *tally, bad *[]string) {
	done := make(chan any, 1)
	go func() {
		defer func() { done <- recover() }()
		if _, err := env.TM.StartTask(task); err != nil {
			return
		}
		p := rt.MustPoint("m", map[string]string{"g": "a"}, map[string]any{"x": int64(0), "f": 1.5, "s": "str", "b": true}, rt.DefaultTime.T(1))
		env.Write("db", "rp", p)
		env.TM.StopTask(task.ID)
	}()
	select {
	case x := <-done:
		t.ran++
		if x != nil {
			t.panics++
			*bad = append(*bad, fmt.Sprintf("panic %v running %q", x, task.ID))
		}
	case <-time.After(30 * time.Second):
		t.hangs++
		*bad = append(*bad, fmt.Sprintf("hang running %q", task.ID))
	}
}

var lastLambda string

func lambdaOne(src string, t *tally, bad *[]string) {
	t.n++
	lastLambda = src
	if dbg != nil {
		dbg.Seek(0, 0)
		dbg.Truncate(0)
		dbg.WriteString(src)
	}
	defer func() {
		if x := recover(); x != nil {
			t.panics++
			*bad = append(*bad, fmt.Sprintf("panic %v on lambda %q", x, src))
		}
	}()
	l, err := ast.ParseLambda(src)
	if err != nil {
		t.errs++
		return
	}
	e, err := stateful.NewExpression(l.Expression)
	if err != nil {
		t.errs++
		return
	}
	t.tasks++
	sc := stateful.NewScope()
	for _, vals := range [][2]any{{int64(0), "a"}, {1.5, ""}, {"s", int64(-1)}, {true, 2.0}, {time.Second, time.Unix(0, 0)}} {
		sc.Set("x", vals[0])
		sc.Set("f", vals[1])
		e.Eval(sc)
		e.EvalBool(sc)
	}
}

var lambdaTokens = []string{"\"x\"", "\"f\"", "1", "0", "1.0", "'s'", "1s", "/r/", "TRUE", "+", "-", "*", "/", "%", "==", "!=", "<", "=~", "AND", "OR", "!", "(", ")", ",",
	"int(", "float(", "string(", "strSubstring(", "strIndex(", "count(", "sigma(", "if(", "abs(", "duration(", "pow(", "strLength(", "hour(", "isPresent(", "humanBytes("}

// RunDefine: every short token sequence (and seeded mutations of real scripts) is
// offered to TaskMaster.NewTask / ast.ParseLambda + stateful evaluation; the outcome
// must be a task or an error, never a panic, hang or goroutine leak.
func RunDefine(r *rt.Run) error {
	if f := os.Getenv("C05_DEBUG"); f != "" {
		dbg, _ = os.Create(f)
	}
	env, err := rt.NewEnv(rt.EnvOpts{})
	if err != nil {
		return err
	}
	defer env.Close()
	tr := r.NewTrace("define")
	maxLen := 3
	lamLen := 3
	if r.Thorough() {
		maxLen, lamLen = 4, 4
	}
	g0 := runtime.NumGoroutine()
	emit := func(kind string, length int, first string, t tally, bad []string) {
		tr.Reset(nil)
		sample := []any{}
		for i, b := range bad {
			if i < 5 {
				sample = append(sample, b)
			}
		}
		tr.Event("DefineBatch", rt.M{"kind": kind, "len": length, "first": first, "n": t.n, "tasks": t.tasks, "errors": t.errs,
			"panics": t.panics, "hangs": t.hangs, "ran": t.ran, "bad": sample})
		if t.tasks > 0 {
			tr.Distinct(fmt.Sprintf("%s/%d/%s", kind, length, first))
		}
	}
	n := 0
	for length := 1; length <= maxLen; length++ {
		for fi, first := range tokens {
			if length == maxLen && maxLen == 4 && !(first == "stream" || first == "batch" || first == "var a = ") {
				continue // length 4: only sequences that can start a script
			}
			var t tally
			var bad []string
			idx := make([]int, length)
			idx[0] = fi
			for {
				var sb strings.Builder
				for _, k := range idx {
					sb.WriteString(tokens[k])
				}
				n++
				defineOne(env, fmt.Sprintf("d%d", n), sb.String(), r.Thorough() || n%7 == 0, &t, &bad)
				// next (positions 1..)
				p := length - 1
				for p >= 1 {
					idx[p]++
					if idx[p] < len(tokens) {
						break
					}
					idx[p] = 0
					p--
				}
				if p < 1 {
					break
				}
			}
			emit("tick", length, strings.TrimSpace(first), t, bad)
		}
	}
	for length := 1; length <= lamLen; length++ {
		for fi, first := range lambdaTokens {
			var t tally
			var bad []string
			idx := make([]int, length)
			idx[0] = fi
			for {
				src := ""
				depth := 0
				for _, k := range idx {
					src += lambdaTokens[k] + " "
					depth += strings.Count(lambdaTokens[k], "(") - strings.Count(lambdaTokens[k], ")")
				}
				for ; depth > 0; depth-- {
					src += ")"
				}
				lambdaOne(src, &t, &bad)
				p := length - 1
				for p >= 1 {
					idx[p]++
					if idx[p] < len(lambdaTokens) {
						break
					}
					idx[p] = 0
					p--
				}
				if p < 1 {
					break
				}
			}
			emit("lambda", length, first, t, bad)
		}
	}
	// syntax errors at every distance from trailing multi-byte text (error messages quote a snippet of the
	// script around the offending token)
	{
		var t tally
		var bad []string
		k := 0
		for _, base := range []string{") ", "| ", "var x = ) ", "stream|from(", "stream\n|from()\n.measurement(", "var s = 'a' + + "} {
			for _, tail := range []string{"é", "→", "😀", "é→😀", "aé", "😀b"} {
				for pad := 0; pad <= 16; pad++ {
					for _, sep := range []string{"// ", "'", ""} {
						k++
						defineOne(env, fmt.Sprintf("u%d", k), base+sep+strings.Repeat("a", pad)+tail, false, &t, &bad)
						lambdaOne(base+sep+strings.Repeat("a", pad)+tail, &t, &bad)
					}
				}
			}
		}
		emit("unicode-tail", 0, "syntax error before multi-byte text", t, bad)
	}
	nMut := 3000
	if r.Thorough() {
		nMut = 40000
	}
	runMutants(r, env, nMut, emit)
	// goroutine growth over the whole run (definitions must not leak goroutines)
	deadline := time.Now().Add(10 * time.Second)
	g1 := runtime.NumGoroutine()
	for g1 > g0+2 && time.Now().Before(deadline) {
		time.Sleep(10 * time.Millisecond)
		g1 = runtime.NumGoroutine()
	}
	tr.Reset(nil)
	tr.Event("Goroutines", rt.M{"before": g0, "after": g1})
	r.Extra["token_alphabet"] = len(tokens)
	r.Extra["lambda_alphabet"] = len(lambdaTokens)
	r.Extra["max_len"] = maxLen
	r.Extra["corpus_mutants"] = nMut
	r.Finish("every sequence of TICKscript tokens up to the length bound offered to TaskMaster.NewTask (accepted stream tasks are started, fed one point and stopped), every sequence of lambda tokens parsed, compiled and evaluated on 5 scopes; batches grouped by (kind, length, first token); non-trivial = a batch in which at least one definition was accepted", true)
	return nil
}
