package c05

// write.go: data points as bytes.  Every short byte string over the line protocol's alphabet, alone and inside the
// contexts of a line (measurement, tag key/value, field key/value of each type, timestamp), is posted to the real
// /kapacitor/v1/write handler while a task with expression-bearing nodes is running.  Outcome per request: 2xx (points
// accepted) or 4xx (refused) - never a 5xx, a recovered panic or a dead process; and after every batch of requests a
// sentinel point must still come out of the task (it "keeps processing subsequent points").

import (
	"bytes"
	"expvar"
	"fmt"
	"io"
	"log"
	"net/http/httptest"
	"sync/atomic"
	"time"

	"github.com/influxdata/kapacitor"
	"github.com/influxdata/kapacitor/services/httpd"

	"kapverif/rt"
)

var lineAlphabet = []byte{'m', 'f', 't', 'T', 'e', 'E', 'i', 'u', 'n', 'N', 'a', '0', '1', '9', '-', '+', '.', ',', ' ', '=', '"', '\\', '\n', '\r', '\t', '#', 0x00, 0xff, 0xc3, 0xa9}

var lineContexts = [][2]string{
	{"", " f=1 1"},                   // measurement (+ tags)
	{"m,", " f=1 1"},                 // tag set
	{"m,t=", " f=1 1"},               // tag value
	{"m,", "=v f=1 1"},               // tag key
	{"m ", " 1"},                     // field set
	{"m f=", " 1"},                   // field value
	{"m f=1", " 1"},                  // number continuation
	{"m f=\"", "\" 1"},               // string field value
	{"m ", "=1 1"},                   // field key
	{"m f=1,", " 1"},                 // second field
	{"m f=1 ", ""},                   // timestamp
	{"m f=1 1\n", ""},                // second line
	{"m,t=v f=1i,s=\"x\" 1\nm ", ""}, // after a good line
}

type wDiag struct{ d *rt.Diag }

func (h wDiag) NewHTTPServerErrorLogger() *log.Logger { return log.New(io.Discard, "", 0) }
func (h wDiag) StartingService()                      {}
func (h wDiag) StoppedService()                       {}
func (h wDiag) ShutdownTimeout()                      {}
func (h wDiag) AuthenticationEnabled(bool)            {}
func (h wDiag) ListeningOn(string, string)            {}
func (h wDiag) WriteBodyReceived(string)              {}
func (h wDiag) HTTP(host, username string, start time.Time, method, uri, proto string, status int, referer, userAgent, reqID string, duration time.Duration) {
}
func (h wDiag) Error(msg string, err error) {}
func (h wDiag) RecoveryError(msg, err, host, username string, start time.Time, method, uri, proto string, status int, referer, userAgent, reqID string, duration time.Duration) {
	recovered.Add(1)
	lastRecovered.Store(&err)
}

var recovered atomic.Int64
var lastRecovered atomic.Pointer[string]

const writeVictim = `stream
    |from()
    |where(lambda: "f" != 0 OR "t" == 'v' OR TRUE)
    |eval(lambda: "f" * 2, lambda: strLength(string("f")))
        .as('d', 'n')
        .keep()
    |stateCount(lambda: "f" > 0)
    |log()
        .prefix('v')
`

// a second task that groups by every tag, windows and aggregates: whatever tag sets and values are accepted become group ids
const writeVictim2 = `stream
    |from()
        .groupBy(*)
    |window()
        .periodCount(2)
        .everyCount(1)
    |max('f')
    |log()
        .prefix('w')
`

func famWrite(r *rt.Run, env *rt.Env, emit emitFn) {
	alone, inCtx := 3, 2
	if r.Thorough() {
		alone, inCtx = 4, 3
	}
	h := httpd.NewHandler(false, false, false, false, true, new(expvar.Map).Init(), wDiag{env.Diag}, "")
	h.PointsWriter = env.TM
	for i, src := range []string{writeVictim, writeVictim2} {
		if _, err := env.StartTask(fmt.Sprintf("wv%d", i), src, kapacitor.StreamTask, rt.DefaultDBRP); err != nil {
			rt.Fatalf("c05 write: victim task %d: %v", i, err)
		}
	}
	var seen atomic.Int64
	env.Diag.OnItem = func(it rt.SinkItem) {
		if it.Sink == "v" && it.Point != nil {
			if v, ok := it.Point.Fields()["sentinel"].(int64); ok {
				seen.Store(v)
			}
		}
	}
	post := func(body []byte, precision string) (int, bool) {
		req := httptest.NewRequest("POST", "/kapacitor/v1/write?db=db&rp=rp&precision="+precision, bytes.NewReader(body))
		rec := httptest.NewRecorder()
		done := make(chan struct{})
		go func() { defer close(done); h.ServeHTTP(rec, req) }()
		select {
		case <-done:
			return rec.Code, false
		case <-time.After(30 * time.Second):
			return 0, true
		}
	}
	sentinel := int64(0)
	one := func(body []byte, t *tally, bad *[]string) {
		t.n++
		setCur("POST /write " + string(body))
		r0 := recovered.Load()
		prec := [...]string{"n", "s", "ms", "u", "h", "x"}[t.n%6]
		code, hung := post(body, prec)
		switch {
		case hung:
			t.hangs++
			*bad = append(*bad, fmt.Sprintf("write handler did not answer for body %q", body))
		case recovered.Load() != r0:
			t.panics++
			*bad = append(*bad, fmt.Sprintf("write handler panicked (%s) on body %q", *lastRecovered.Load(), body))
		case code >= 200 && code < 300:
			t.tasks++
		case code >= 400 && code < 500:
			t.errs++
		default:
			t.panics++
			*bad = append(*bad, fmt.Sprintf("write handler answered %d to body %q (precision %s)", code, body, prec))
		}
	}
	// after a batch: the task still processes a subsequent point
	alive := func(t *tally, bad *[]string) {
		sentinel++
		body := []byte(fmt.Sprintf("zz,t=v f=1i,sentinel=%di %d\n", sentinel, 1000+sentinel))
		code, hung := post(body, "s")
		deadline := time.Now().Add(30 * time.Second)
		for seen.Load() < sentinel && time.Now().Before(deadline) {
			time.Sleep(200 * time.Microsecond)
		}
		if hung || code != 204 || seen.Load() < sentinel {
			t.hangs++
			*bad = append(*bad, fmt.Sprintf("after this batch the running task no longer processes points: sentinel %d answered %d and was not seen at the task's sink (executing: %v)", sentinel, code, env.TM.IsExecuting("wv0")))
		}
		env.Diag.Clear()
	}
	each := func(length int, first byte, pre, suf string, t *tally, bad *[]string) {
		idx := make([]int, length)
		buf := make([]byte, length)
		for {
			buf[0] = first
			for i := 1; i < length; i++ {
				buf[i] = lineAlphabet[idx[i]]
			}
			one([]byte(pre+string(buf)+suf), t, bad)
			p := length - 1
			for p >= 1 {
				idx[p]++
				if idx[p] < len(lineAlphabet) {
					break
				}
				idx[p] = 0
				p--
			}
			if p < 1 {
				break
			}
		}
	}
	for length := 1; length <= alone; length++ {
		for _, first := range lineAlphabet {
			var t tally
			var bad []string
			each(length, first, "", "", &t, &bad)
			alive(&t, &bad)
			emit("write", length, fmt.Sprintf("%q", string([]byte{first})), t, bad)
		}
	}
	for ci, c := range lineContexts {
		for length := 1; length <= inCtx; length++ {
			var t tally
			var bad []string
			for _, first := range lineAlphabet {
				each(length, first, c[0], c[1], &t, &bad)
			}
			alive(&t, &bad)
			emit("write-ctx", length, fmt.Sprintf("%d:%s", ci, c[0]), t, bad)
		}
	}
	// field value classes of every type through the typed paths (extremes, wrong type for the expressions)
	{
		var t tally
		var bad []string
		vals := []string{"0", "-0", "1", "-1", "0i", "-1i", "9223372036854775807i", "-9223372036854775808i", "9223372036854775808i", "18446744073709551615u", "1e308", "-1e308", "1e309", "4.9e-324", "1e-400",
			"NaN", "nan", "Inf", "+Inf", "-Inf", "t", "T", "true", "false", "F", "\"\"", "\"s\"", "\"" + string(bytes.Repeat([]byte("x"), 70000)) + "\"", "\"\\\"\"", "\"a\\\\\"", "1.", ".1", "1e", "0x10", "1_0", "1i1"}
		for _, v := range vals {
			for _, k := range []string{"f", "x", "d", "n", "sentinel", "time", "_field"} {
				one([]byte(fmt.Sprintf("m,t=v %s=%s 1", k, v)), &t, &bad)
				one([]byte(fmt.Sprintf("m,t=v f=1i,%s=%s 1", k, v)), &t, &bad)
			}
		}
		for _, ts := range []string{"0", "-1", "9223372036854775807", "-9223372036854775808", "9223372036854775808", "1e3", "1.0", " ", "1 1", "01"} {
			one([]byte("m f=1 "+ts), &t, &bad)
		}
		alive(&t, &bad)
		emit("write", 0, "value classes", t, bad)
	}
	env.Diag.OnItem = nil
	for i := range []int{0, 1} {
		env.TM.StopTask(fmt.Sprintf("wv%d", i))
	}
	r.Extra["line_alphabet"] = len(lineAlphabet)
	r.Extra["line_contexts"] = len(lineContexts)
	r.Extra["line_len_alone"] = alone
	r.Extra["line_len_in_context"] = inCtx
}
