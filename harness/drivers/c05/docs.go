package c05

// docs.go: the documents other than TICKscript text that define a task - the JSON bodies of the task store's HTTP API
// (task documents, template/vars documents) and the JSON form of a pipeline.  Every document of the enumerated
// classes goes through the real handler (or Pipeline.Unmarshal); the outcome is a response (2xx = a task, otherwise
// an error) - never a panic, a hang, a dead process or goroutine growth.

import (
	"bytes"
	"encoding/json"
	"expvar"
	"fmt"
	"net/http"
	"net/http/httptest"
	"net/url"
	"os"
	"runtime"
	"strings"
	"time"

	"github.com/influxdata/kapacitor"
	"github.com/influxdata/kapacitor/keyvalue"
	"github.com/influxdata/kapacitor/pipeline"
	"github.com/influxdata/kapacitor/services/httpd"
	"github.com/influxdata/kapacitor/services/task_store"
	"github.com/influxdata/kapacitor/tick"
	"github.com/influxdata/kapacitor/tick/ast"
	"github.com/influxdata/kapacitor/tick/stateful"

	"kapverif/rt"
)

type tmLookup struct{ tm *kapacitor.TaskMaster }

func (l *tmLookup) Main() *kapacitor.TaskMaster      { return l.tm }
func (l *tmLookup) Get(string) *kapacitor.TaskMaster { return l.tm }
func (l *tmLookup) Set(*kapacitor.TaskMaster)        {}
func (l *tmLookup) Delete(*kapacitor.TaskMaster)     {}

type tsDiag struct{}

func (tsDiag) StartingTask(string)                            {}
func (tsDiag) StartedTask(string)                             {}
func (tsDiag) FinishedTask(string)                            {}
func (tsDiag) Error(msg string, err error, ctx ...keyvalue.T) {}
func (tsDiag) Debug(string)                                   {}
func (tsDiag) AlreadyMigrated(string, string)                 {}
func (tsDiag) Migrated(string, string)                        {}

type api struct {
	ts     *task_store.Service
	routes map[string]http.HandlerFunc
	h      *httpd.Handler
	lastID string // id in the last 200 response (the id the service gave the object, whatever the document said)
}

func openAPI(env *rt.Env) *api {
	ts := task_store.NewService(task_store.Config{}, tsDiag{})
	ts.StorageService = env.Storage
	ts.HTTPDService = env.HTTPD
	ts.TaskMasterLookup = &tmLookup{tm: env.TM}
	env.TM.TaskStore = ts
	if err := ts.Open(); err != nil {
		rt.Fatalf("c05: task store open: %v", err)
	}
	a := &api{ts: ts, routes: map[string]http.HandlerFunc{}}
	// the routes the service registered, behind the real HTTP handler (router, logging and recovery middleware):
	// what a client of the daemon talks to
	h := httpd.NewHandler(false, false, false, false, true, new(expvar.Map).Init(), wDiag{env.Diag}, "")
	if err := h.AddRoutes(env.HTTPD.Routes); err != nil {
		rt.Fatalf("c05: adding the task store's routes to the HTTP handler: %v", err)
	}
	a.h = h
	for _, r := range env.HTTPD.Routes {
		if hf, ok := r.HandlerFunc.(func(http.ResponseWriter, *http.Request)); ok {
			a.routes[r.Method+" "+r.Pattern] = hf
		}
	}
	return a
}

// call: one request through the handler the service registered; a panic is what net/http would see.
func (a *api) call(method, pattern, u string, body []byte) (code int, resp []byte, pan any, hung bool) {
	h, ok := a.routes[method+" "+pattern]
	if !ok {
		rt.Fatalf("c05: no route %s %s registered by the task store", method, pattern)
	}
	type out struct {
		code int
		body []byte
		pan  any
	}
	ch := make(chan out, 1)
	go func() {
		var o out
		defer func() {
			if x := recover(); x != nil {
				o.pan = fmt.Sprintf("%v [%s]", x, panicSite())
			}
			ch <- o
		}()
		r := httptest.NewRequest(method, u, bytes.NewReader(body))
		rec := httptest.NewRecorder()
		_ = h
		r0 := recovered.Load()
		a.h.ServeHTTP(rec, r)
		o.code, o.body = rec.Code, rec.Body.Bytes()
		if recovered.Load() != r0 {
			// the recovery middleware caught a panic of the handler and answered for it
			o.pan = fmt.Sprintf("%s (answered %d by the recovery middleware)", *lastRecovered.Load(), rec.Code)
		}
	}()
	select {
	case o := <-ch:
		return o.code, o.body, o.pan, false
	case <-time.After(30 * time.Second):
		return 0, nil, nil, true
	}
}

// post one document; classify.
func (a *api) doc(kind, method, pattern, u string, body []byte, t *tally, bad *[]string) int {
	t.n++
	setCur(method + " " + u + " " + string(body))
	code, resp, pan, hung := a.call(method, pattern, u, body)
	if os.Getenv("C05_APILOG") != "" {
		fmt.Fprintf(os.Stderr, "API %s %s %s -> %d %s\n", method, u, body, code, clip(resp))
	}
	a.lastID = ""
	if code == 200 {
		var v struct {
			ID string `json:"id"`
		}
		if json.Unmarshal(resp, &v) == nil {
			a.lastID = v.ID
		}
	}
	switch {
	case pan != nil:
		t.panics++
		*bad = append(*bad, fmt.Sprintf("panic %v on %s %s %s", pan, method, u, body))
	case hung:
		t.hangs++
		*bad = append(*bad, fmt.Sprintf("hang on %s %s %s", method, u, body))
	case code >= 200 && code < 300:
		t.tasks++
	case code >= 400 && code < 600:
		t.errs++
	default:
		t.panics++
		*bad = append(*bad, fmt.Sprintf("response %d %s to %s %s %s is neither a task nor an error", code, resp, method, u, body))
	}
	return code
}

// JSON value classes offered wherever a document has a value
var jsonValues = []string{
	`null`, `true`, `false`, `0`, `-1`, `1.5`, `1e400`, `9223372036854775807`, `9223372036854775808`, `-9223372036854775809`, `1e3`,
	`""`, `"abc"`, `"1s"`, `"-5m"`, `"10"`, `"1.5"`, `"TRUE"`, `"("`, `"/(/"`, `"\"x\" > 1"`, `"lambda: \"x\" > 1"`, `"\"x\" +"`, `"*"`, `"\u0000"`, `"é→😀"`,
	`[]`, `[1]`, `["a"]`, `[[]]`, `[null]`, `{}`, `{"a":1}`,
	`[{"type":"string","value":"a"}]`, `[{"type":"star","value":""}]`, `[{"type":"string","value":1}]`, `[{"type":"int","value":"a"}]`,
	`[{"type":5,"value":1}]`, `[{"type":"string"}]`, `[{"value":1}]`, `[{"type":"nosuch","value":1}]`, `[{"type":null,"value":null}]`,
	`[{"type":"list","value":[{"type":"string","value":"a"}]}]`, `[{"type":"lambda","value":"\"x\" > 1"}]`, `[{"type":"regex","value":"("}]`,
	`[{"type":"duration","value":"1s"}]`, `[{"type":"duration","value":1}]`, `[{"type":"bool","value":"x"}]`, `[{"type":"float","value":"1e999"}]`,
}

var varTypes = []string{`"bool"`, `"int"`, `"float"`, `"string"`, `"regex"`, `"duration"`, `"lambda"`, `"list"`, `"star"`, `"nosuch"`, `""`, `null`, `5`, `[]`}

// one template per declared var type: the var is used where a value of that type is required
var varTemplates = []struct{ name, decl, use string }{
	{"b", "var v bool", "stream|from().measurement('m')|window().period(1s).every(1s).fillPeriod()|count('x')|log()|eval(lambda: v).as('b')"},
	{"i", "var v int", "stream|from().measurement('m')|sample(v)|log()"},
	{"f", "var v float", "stream|from().measurement('m')|where(lambda: \"f\" > v)|log()"},
	{"s", "var v string", "stream|from().measurement(v)|log()"},
	{"r", "var v regex", "stream|from().measurement('m')|where(lambda: \"s\" =~ v)|log()"},
	{"d", "var v duration", "stream|from().measurement('m')|window().period(v).every(v)|count('x')|log()"},
	{"l", "var v lambda", "stream|from().measurement('m')|where(v)|log()"},
	{"ls", "var v list", "stream|from().measurement('m').groupBy(v)|log()"},
	// a var of each type used at every kind of place that takes it (a template is defined with the var still undefined)
	{"le", "var v lambda", "stream|from().measurement('m')|eval(v).as('value')|log()"},
	{"le2", "var v lambda", "stream|from().measurement('m')|eval(lambda: \"x\" + 1, v).as('a', 'b').keep('a')|log()"},
	{"la", "var v lambda", "stream|from().measurement('m')|alert().crit(v).warnReset(v).message('m')"},
	{"lsd", "var v lambda", "stream|from().measurement('m')|stateDuration(v)|stateCount(v)|log()"},
	{"lfw", "var v lambda", "stream|from().measurement('m').where(v)|log()"},
	{"lcomb", "var v lambda", "stream|from().measurement('m')|combine(v, v).as('a', 'b')|log()"},
	{"lnest", "var v lambda", "var w = lambda: v AND TRUE\nstream|from().measurement('m')|where(w)|log()"},
	{"rfrom", "var v regex", "stream|from().measurement('m')|eval(lambda: regexReplace(v, \"s\", 'x')).as('r')|log()"},
	{"sid", "var v string", "stream|from().measurement('m')|alert().id(v).message(v).details(v).crit(lambda: TRUE).topic(v)"},
	{"sas", "var v string", "stream|from().measurement('m')|eval(lambda: 1).as(v).tags(v)|groupBy(v)|log().prefix(v)"},
	{"dshift", "var v duration", "stream|from().measurement('m')|shift(v)|derivative('x').unit(v)|elapsed('x', v)|log()"},
	{"dbar", "var v duration", "stream|from().measurement('m')|barrier().idle(v)|window().period(v).every(v).align()|count('x')|log()"},
	{"icount", "var v int", "stream|from().measurement('m')|window().periodCount(v).everyCount(v)|top(v, 'x')|log()"},
	{"ima", "var v int", "stream|from().measurement('m')|movingAverage('x', v)|percentile('x', v)|log()"},
	{"fperc", "var v float", "stream|from().measurement('m')|window().period(1s).every(1s)|percentile('x', v)|log()"},
	{"fflap", "var v float", "stream|from().measurement('m')|alert().crit(lambda: TRUE).flapping(v, v).history(3)"},
	{"lskeep", "var v list", "stream|from().measurement('m')|eval(lambda: 1).as('a').keep(v)|delete().field(v)|log()"},
	{"bquiet", "var v bool", "stream|from().measurement('m')|default().field('b', v)|where(lambda: \"b\" == v)|log()"},
	{"def", "var v = 1", "stream|from().measurement('m')|sample(v)|log()"},
	{"defl", "var v = ['a', 'b']", "stream|from().measurement('m').groupBy(v)|log()"},
	{"deflam", "var v = lambda: \"x\" > 1", "stream|from().measurement('m')|where(v)|log()"},
}

// famVars: template/vars documents and task documents through the task store's HTTP handlers.
func famVars(r *rt.Run, env *rt.Env, emit emitFn) {
	a := openAPI(env)
	defer a.ts.Close()
	base := httpd.BasePath
	point := rt.MustPoint("m", map[string]string{"g": "a", "a": "1", "b": "2"}, map[string]any{"x": int64(2), "f": 1.5, "s": "str", "b": true}, rt.DefaultTime.T(1))
	nTask := 0
	for _, tp := range varTemplates {
		var t tally
		var bad []string
		tid := "tpl_" + tp.name
		body, _ := json.Marshal(map[string]any{"id": tid, "type": "stream", "script": tp.decl + "\n" + tp.use})
		if code := a.doc("template", "POST", "/templates", base+"/templates", body, &t, &bad); code != 200 {
			// refused (an error answer): an outcome like any other; there is nothing to instantiate then
			// (a refused create may still have stored the template: remove it)
			a.call("DELETE", "/templates/", base+"/templates/"+tid, nil)
			emit("vars", 0, tp.name, t, bad)
			continue
		}
		for _, vt := range varTypes {
			for _, vv := range jsonValues {
				nTask++
				id := fmt.Sprintf("vt%d", nTask)
				doc := fmt.Sprintf(`{"id":%q,"template-id":%q,"dbrps":[{"db":"db","rp":"rp"}],"status":"enabled","vars":{"v":{"type":%s,"value":%s}}}`, id, tid, vt, vv)
				if code := a.doc("task", "POST", "/tasks", base+"/tasks", []byte(doc), &t, &bad); code == 200 {
					// an accepted, enabled task is running: it must survive a point and go away again
					env.Write("db", "rp", point)
					// update it with every other value of the same type class (PATCH = redefinition of a running task)
					if nTask%5 == 0 {
						for _, v2 := range []string{`null`, `0`, `"abc"`, `[]`} {
							upd := fmt.Sprintf(`{"vars":{"v":{"type":%s,"value":%s}}}`, vt, v2)
							a.doc("task", "PATCH", "/tasks/", base+"/tasks/"+id, []byte(upd), &t, &bad)
						}
					}
					a.doc("task", "DELETE", "/tasks/", base+"/tasks/"+id, nil, &t, &bad)
				} else {
					// a refused create may still have stored the task (start failed after the save): remove it
					a.call("DELETE", "/tasks/", base+"/tasks/"+id, nil)
				}
			}
		}
		// the template itself redefined with a script of another shape while nothing uses it, then removed
		for _, s2 := range []string{"", "var v", "var v int = 1", tp.decl, tp.decl + "\nbatch|query('select 1')", "stream|from()|log()"} {
			upd, _ := json.Marshal(map[string]any{"script": s2})
			a.doc("template", "PATCH", "/templates/", base+"/templates/"+tid, upd, &t, &bad)
		}
		a.doc("template", "DELETE", "/templates/", base+"/templates/"+tid, nil, &t, &bad)
		emit("vars", len(varTypes)*len(jsonValues), tp.name, t, bad)
	}
	// task documents: every top-level key of a create request with every JSON value class
	keys := []string{"id", "template-id", "type", "dbrps", "script", "status", "vars"}
	good := map[string]string{"id": `"x"`, "type": `"stream"`, "dbrps": `[{"db":"db","rp":"rp"}]`, "script": `"stream|from().measurement('m')|log()"`, "status": `"enabled"`}
	extra := []string{`"stream"`, `"batch"`, `"enabled"`, `"disabled"`, `[{"db":"","rp":""}]`, `[{"db":1}]`, `[null]`, `[{}]`, `"tpl_none"`, `"a/b"`, `"../x"`, `"stream|from()|window()"`, `"batch|query('')"`,
		`{"v":null}`, `{"v":{}}`, `{"v":{"type":"list"}}`, `{"v":{"type":"list","value":null}}`, `{"v":5}`, `{"":{"type":"int","value":1}}`}
	for _, key := range keys {
		var t tally
		var bad []string
		for vi, vv := range append(append([]string(nil), jsonValues...), extra...) {
			id := fmt.Sprintf("td_%s_%d", key, vi)
			parts := []string{}
			for _, k := range keys {
				v, ok := good[k]
				if k == "id" {
					v = fmt.Sprintf("%q", id)
				}
				if k == key {
					v, ok = vv, true
				}
				if ok {
					parts = append(parts, fmt.Sprintf("%q:%s", k, v))
				}
			}
			doc := "{" + strings.Join(parts, ",") + "}"
			if code := a.doc("task", "POST", "/tasks", base+"/tasks", []byte(doc), &t, &bad); code == 200 {
				created := a.lastID
				env.Write("db", "rp", point)
				// whatever id the document carried: remove what was created
				a.doc("task", "DELETE", "/tasks/", base+"/tasks/"+url.PathEscape(created), nil, &t, &bad)
			} else {
				for _, del := range []string{id, "x"} {
					a.call("DELETE", "/tasks/", base+"/tasks/"+del, nil)
				}
			}
		}
		// and as a template document
		for vi, vv := range append(append([]string(nil), jsonValues...), extra...) {
			if key == "template-id" || key == "dbrps" || key == "status" {
				break
			}
			id := fmt.Sprintf("tt_%s_%d", key, vi)
			g2 := map[string]string{"id": fmt.Sprintf("%q", id), "type": `"stream"`, "script": `"var v int\nstream|from()|sample(v)|log()"`}
			g2[key] = vv
			parts := []string{}
			for _, k := range []string{"id", "type", "script", "vars"} {
				if v, ok := g2[k]; ok {
					parts = append(parts, fmt.Sprintf("%q:%s", k, v))
				}
			}
			if code := a.doc("template", "POST", "/templates", base+"/templates", []byte("{"+strings.Join(parts, ",")+"}"), &t, &bad); code == 200 {
				a.doc("template", "DELETE", "/templates/", base+"/templates/"+url.PathEscape(a.lastID), nil, &t, &bad)
			}
		}
		emit("taskdoc", len(jsonValues)+len(extra), key, t, bad)
	}
	// truncated and malformed bodies
	{
		var t tally
		var bad []string
		full := `{"id":"trunc","type":"stream","dbrps":[{"db":"db","rp":"rp"}],"script":"stream|from()|log()","status":"enabled","vars":{"v":{"type":"list","value":[{"type":"string","value":"a"}]}}}`
		for i := 0; i <= len(full); i++ {
			a.doc("task", "POST", "/tasks", base+"/tasks", []byte(full[:i]), &t, &bad)
			a.call("DELETE", "/tasks/", base+"/tasks/trunc", nil)
		}
		emit("taskdoc", len(full), "truncated", t, bad)
	}
	// everything that was created was removed again: the service must know no task or template now
	{
		var t tally
		var bad []string
		for _, coll := range []string{"tasks", "templates"} {
			t.n++
			code, resp, pan, hung := a.call("GET", "/"+coll, base+"/"+coll, nil)
			var v map[string][]struct {
				ID string `json:"id"`
			}
			if pan != nil || hung || code != 200 || json.Unmarshal(resp, &v) != nil {
				t.panics++
				bad = append(bad, fmt.Sprintf("listing %s: code %d panic %v hung %v", coll, code, pan, hung))
				continue
			}
			t.tasks++
			for _, o := range v[coll] {
				t.hangs++
				bad = append(bad, fmt.Sprintf("%s %q was created through the API and cannot be removed through it (DELETE answered without removing it)", coll, o.ID))
			}
		}
		emit("taskdoc", 0, "leftover", t, bad)
	}
	r.Extra["vars_templates"] = len(varTemplates)
	r.Extra["vars_types"] = len(varTypes)
	r.Extra["json_value_classes"] = len(jsonValues)
}

// ---- pipeline JSON ----

// pipelineOf builds the pipeline of a corpus script the way TaskMaster.NewTask does.
func pipelineOf(env *rt.Env, src string) (*pipeline.Pipeline, error) {
	scope := env.TM.CreateTICKScope()
	et := pipeline.StreamEdge
	if strings.HasPrefix(strings.TrimSpace(src), "batch") {
		et = pipeline.BatchEdge
	}
	return pipeline.CreatePipeline(src, et, scope, deadmanCfg{}, nil)
}

type deadmanCfg struct{}

func (deadmanCfg) Interval() time.Duration { return 10 * time.Second }
func (deadmanCfg) Threshold() float64      { return 100 }
func (deadmanCfg) Id() string              { return "{{ .Name }}" }
func (deadmanCfg) Message() string         { return "msg" }
func (deadmanCfg) Global() bool            { return false }

var _ = stateful.NewScope
var _ = tick.Format

// pjsonOne: one JSON document through Pipeline.Unmarshal (and, when accepted, back to JSON); plus every lambda
// document it contains through the AST's own JSON entry point.
func pjsonOne(doc []byte, t *tally, bad *[]string) {
	t.n++
	setCur(string(doc))
	type out struct {
		err error
		pan any
	}
	ch := make(chan out, 1)
	go func() {
		var o out
		defer func() {
			if o.pan = recover(); o.pan != nil {
				o.pan = fmt.Sprintf("%v [%s]", o.pan, panicSite())
			}
			ch <- o
		}()
		p := &pipeline.Pipeline{}
		o.err = p.Unmarshal(doc)
		if o.err == nil {
			_, o.err = json.Marshal(p)
		}
	}()
	select {
	case o := <-ch:
		switch {
		case o.pan != nil:
			t.panics++
			*bad = append(*bad, fmt.Sprintf("panic %v on pipeline JSON %s", o.pan, clip(doc)))
		case o.err != nil:
			t.errs++
		default:
			t.tasks++
		}
	case <-time.After(30 * time.Second):
		t.hangs++
		*bad = append(*bad, fmt.Sprintf("hang on pipeline JSON %s", clip(doc)))
	}
}

func lambdaJSONOne(doc []byte, t *tally, bad *[]string) {
	t.n++
	setCur(string(doc))
	defer func() {
		if x := recover(); x != nil {
			t.panics++
			*bad = append(*bad, fmt.Sprintf("panic %v [%s] on lambda JSON %s", x, panicSite(), clip(doc)))
		}
	}()
	var l ast.LambdaNode
	if err := json.Unmarshal(doc, &l); err != nil {
		t.errs++
		return
	}
	t.tasks++
	// an accepted lambda document is compiled and evaluated like one that was parsed from text
	if l.Expression == nil {
		return
	}
	e, err := stateful.NewExpression(l.Expression)
	if err != nil {
		return
	}
	sc := stateful.NewScope()
	sc.Set("x", int64(1))
	sc.Set("f", 1.5)
	sc.Set("s", "str")
	e.Eval(sc)
	e.EvalBool(sc)
	_ = l.ExpressionString()
}

// panicSite: file:line of the innermost frame of the code under test on the panicking goroutine's stack.
func panicSite() string {
	pcs := make([]uintptr, 64)
	n := runtime.Callers(3, pcs)
	fr := runtime.CallersFrames(pcs[:n])
	for {
		f, more := fr.Next()
		if strings.Contains(f.Function, "influxdata/kapacitor") {
			file := f.File
			if i := strings.Index(file, "/kapacitor/"); i >= 0 {
				file = file[i+len("/kapacitor/"):]
			} else if strings.HasPrefix(file, "/repo/") {
				file = file[len("/repo/"):]
			}
			return fmt.Sprintf("%s:%d", file, f.Line)
		}
		if !more {
			return "?"
		}
	}
}

func clip(b []byte) string {
	if len(b) > 600 {
		return string(b[:600]) + "…"
	}
	return string(b)
}

// mutations of a decoded JSON document: at every position of the tree, delete the member / element, or replace it by
// a value of every other JSON kind (and by typical wrong values of the same kind).
var replacements = []any{nil, true, 0.0, -1.0, 1.5, 1e18, "", "x", "1s", "stream", []any{}, []any{1.0}, []any{"a"}, map[string]any{}, map[string]any{"typeOf": "nosuch"}, map[string]any{"typeOf": "lambda"}}

func mutateJSON(v any, visit func(mut any)) {
	switch x := v.(type) {
	case map[string]any:
		for k, old := range x {
			delete(x, k)
			visit(v)
			for _, rep := range replacements {
				x[k] = rep
				visit(v)
			}
			x[k] = old
			mutateJSONAt(old, func(sub any) { x[k] = sub; visit(v); x[k] = old }, visit, v)
		}
	case []any:
		for i, old := range x {
			for _, rep := range replacements {
				x[i] = rep
				visit(v)
			}
			x[i] = old
			mutateJSONAt(old, func(sub any) { x[i] = sub; visit(v); x[i] = old }, visit, v)
		}
	}
}

// mutateJSONAt descends: every mutation of the child, seen in the context of the root.
func mutateJSONAt(child any, _ func(any), visit func(any), root any) {
	switch child.(type) {
	case map[string]any, []any:
		mutateJSON(child, func(any) { visit(root) })
	}
}

// famPJSON: the JSON form of every corpus pipeline (and of every lambda in it) under every single structural mutation.
func famPJSON(r *rt.Run, env *rt.Env, emit emitFn) {
	limit := 4000
	if r.Thorough() {
		limit = 60000
	}
	for ci, src := range corpus {
		var t tally
		var bad []string
		p, err := pipelineOf(env, src)
		if err != nil {
			rt.Fatalf("c05: corpus script %d does not build: %v", ci, err)
		}
		doc, err := json.Marshal(p)
		if err != nil {
			// Marshal failing on a valid pipeline is an outcome "error", noted
			t.n++
			t.errs++
			emit("pjson", ci, "corpus (marshal refused)", t, bad)
			continue
		}
		pjsonOne(doc, &t, &bad) // the unmutated document
		var root any
		if err := json.Unmarshal(doc, &root); err != nil {
			rt.Fatalf("c05: pipeline JSON of corpus script %d is not JSON: %v", ci, err)
		}
		n := 0
		step := 1
		// count first to stride evenly when the document is large
		total := 0
		mutateJSON(root, func(any) { total++ })
		if total > limit {
			step = (total + limit - 1) / limit
		}
		k := 0
		mutateJSON(root, func(mut any) {
			k++
			if (k+int(r.Seed))%step != 0 {
				return
			}
			b, err := json.Marshal(mut)
			if err != nil {
				return
			}
			n++
			pjsonOne(b, &t, &bad)
		})
		// lambda documents inside the pipeline document, through the AST's own entry point
		var lambdas []any
		var find func(v any)
		find = func(v any) {
			switch x := v.(type) {
			case map[string]any:
				if x["typeOf"] == "lambda" {
					lambdas = append(lambdas, x)
				}
				for _, c := range x {
					find(c)
				}
			case []any:
				for _, c := range x {
					find(c)
				}
			}
		}
		find(root)
		for _, l := range lambdas {
			b, _ := json.Marshal(l)
			lambdaJSONOne(b, &t, &bad)
			mutateJSON(l, func(mut any) {
				b, err := json.Marshal(mut)
				if err == nil {
					lambdaJSONOne(b, &t, &bad)
				}
			})
		}
		emit("pjson", ci, "corpus", t, bad)
	}
	// truncations of one document
	{
		var t tally
		var bad []string
		p, _ := pipelineOf(env, corpus[1])
		doc, _ := json.Marshal(p)
		for i := 0; i < len(doc); i += 3 {
			pjsonOne(doc[:i], &t, &bad)
		}
		emit("pjson", len(doc), "truncated", t, bad)
	}
	r.Extra["pjson_mutations_per_script_max"] = limit
}
