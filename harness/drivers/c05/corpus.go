package c05

import (
	"fmt"
	"regexp"
	"strings"

	"kapverif/rt"
)

// corpus: real scripts covering most node kinds; mutated at token level.
var corpus = []string{
	"stream\n    |from()\n        .measurement('m')\n        .groupBy('g')\n    |window()\n        .period(10s)\n        .every(5s)\n    |mean('x')\n        .as('mx')\n    |alert()\n        .id('{{ .Name }}/{{ index .Tags \"g\" }}')\n        .message('{{ .ID }} is {{ .Level }}')\n        .info(lambda: \"mx\" > 1.0)\n        .warn(lambda: \"mx\" > 2.0)\n        .crit(lambda: \"mx\" > 3.0)\n        .stateChangesOnly()\n    |log()\n",
	"var x = 5\nvar thr = 1.5\nstream\n    |from()\n        .measurement('m')\n        .where(lambda: \"f\" > thr AND \"x\" != x)\n    |eval(lambda: \"x\" * 2, lambda: string(\"x\") + 's')\n        .as('d', 's2')\n        .keep('d', 'x')\n    |where(lambda: \"d\" >= 0)\n    |default()\n        .field('z', 1)\n        .tag('t', 'v')\n    |delete()\n        .field('z')\n    |log()\n",
	"stream\n    |from()\n        .measurement('m')\n    |derivative('f')\n        .unit(1s)\n        .nonNegative()\n    |stateCount(lambda: \"f\" > 0.0)\n    |stateDuration(lambda: \"f\" > 0.0)\n        .unit(1s)\n    |changeDetect('s')\n    |shift(1s)\n    |sample(2)\n    |log()\n",
	"var a = stream\n    |from()\n        .measurement('m')\n        .groupBy('g')\nvar b = stream\n    |from()\n        .measurement('n')\n        .groupBy('g')\na\n    |join(b)\n        .as('a', 'b')\n        .tolerance(1s)\n        .fill(0.0)\n    |eval(lambda: \"a.x\" + \"b.x\")\n        .as('sum')\n    |log()\na\n    |union(b)\n    |log()\n",
	"stream\n    |from()\n        .measurement('m')\n        .groupBy(*)\n    |window()\n        .periodCount(3)\n        .everyCount(1)\n    |percentile('x', 50.0)\n    |flatten()\n        .on('g')\n    |log()\n",
	"stream\n    |from()\n        .measurement('m')\n    |window()\n        .period(4s)\n        .every(2s)\n        .align()\n    |top(2, 'x', 'g')\n    |influxDBOut()\n        .database('out')\n        .retentionPolicy('rp')\n        .measurement('top')\n        .tag('k', 'v')\n",
	"stream\n    |from()\n        .measurement('m')\n    |where(lambda: strSubstring(\"s\", 0, 1) == 's' OR \"s\" =~ /^st/ OR isPresent(\"b\"))\n    |eval(lambda: if(\"b\", 1, 0), lambda: abs(\"f\"), lambda: 10 / \"x\", lambda: 10 % \"x\")\n        .as('i', 'a', 'q', 'r')\n    |log()\n",
	"stream\n    |from()\n        .measurement('m')\n        .groupBy('g')\n    |combine(lambda: \"g\" == 'a', lambda: \"g\" == 'b')\n        .as('a', 'b')\n        .tolerance(1s)\n    |log()\n",
	"stream\n    |from()\n        .measurement('m')\n    |barrier()\n        .idle(10s)\n    |window()\n        .period(2s)\n        .every(2s)\n    |count('x')\n    |httpOut('c')\n",
	"stream\n    |from()\n        .measurement('m')\n    |alert()\n        .crit(lambda: sigma(\"f\") > 3.0 OR count() > 2)\n        .critReset(lambda: \"f\" < 1.0)\n        .flapping(0.25, 0.5)\n        .history(5)\n        .noRecoveries()\n        .levelTag('lvl')\n        .idField('id')\n        .topic('t')\n    |kapacitorLoopback()\n        .database('db')\n        .retentionPolicy('rp')\n        .measurement('lb')\n",
	"stream\n    |from()\n        .measurement('m')\n    |groupBy('g')\n        .byMeasurement()\n    |window()\n        .period(3s)\n        .every(1s)\n        .fillPeriod()\n    |sum('x')\n    |elapsed('sum', 1s)\n    |movingAverage('elapsed', 2)\n    |cumulativeSum('movingAverage')\n    |difference('cumulativeSum')\n    |log()\n",
	"stream\n    |from()\n        .measurement('m')\n    |stats(1h)\n    |log()\n",
}

var tokRe = regexp.MustCompile(`'''|'[^']*'|"[^"]*"|/[^/\s]+/|[A-Za-z_][A-Za-z0-9_]*|[0-9]+(\.[0-9]+)?[a-z]*|==|!=|>=|<=|=~|!~|\s+|.`)

// RunMutants offers n seeded token-level mutations of the corpus to NewTask and runs the accepted ones.
func runMutants(r *rt.Run, env *rt.Env, n int, emit func(kind string, length int, first string, t tally, bad []string)) {
	repl := []string{"", "(", ")", "'", "\"", "lambda:", "|", ".", ",", "0", "-1", "9223372036854775807", "1e308", "0s", "-5s", "*", "'a'", "\"x\"", "TRUE", "/x/", "\n", "stream", "batch", "var", "=", "+", "AND", "!"}
	for ci, src := range corpus {
		toks := tokRe.FindAllString(src, -1)
		var t tally
		var bad []string
		for k := 0; k < n/len(corpus); k++ {
			m := append([]string(nil), toks...)
			for edits := 1 + r.Rand.Intn(2); edits > 0; edits-- {
				i := r.Rand.Intn(len(m))
				switch r.Rand.Intn(4) {
				case 0:
					m = append(m[:i], m[i+1:]...)
				case 1:
					m = append(m[:i], append([]string{m[i]}, m[i:]...)...)
				case 2:
					j := r.Rand.Intn(len(m))
					m[i], m[j] = m[j], m[i]
				default:
					m[i] = repl[r.Rand.Intn(len(repl))]
				}
				if len(m) == 0 {
					break
				}
			}
			defineOne(env, fmt.Sprintf("mut%d_%d", ci, k), strings.Join(m, ""), true, &t, &bad)
		}
		// and the unmutated script itself must define and run
		defineOne(env, fmt.Sprintf("orig%d", ci), src, true, &t, &bad)
		emit("mutant", ci, "corpus", t, bad)
	}
}
