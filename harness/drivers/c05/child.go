// Package c05: fault containment (DESIGN.md C05).  The parent (Run) enumerates
// fault scenarios of spec/Containment and executes each in a child process
// (RunChild), so that a process-fatal outcome is an exit status, not a dead
// harness.  The child runs the real TaskMaster with a victim and a bystander
// task, injects the fault, stops both tasks and reports what it saw.
package c05

import (
	"encoding/json"
	"fmt"
	"os"
	"path/filepath"
	"regexp"
	"runtime"
	"strings"
	"sync/atomic"
	"time"

	"github.com/influxdata/kapacitor"

	"kapverif/rt"
)

func init() {
	rt.Register("c05", Run)
	rt.Register("c05child", RunChild)
}

// Scenario mirrors the `fault` record of Containment.tla.
type Scenario struct {
	Node  int    `json:"node"`  // 1 = from, 2 = eval/alert, 3 = log (sink)
	Kind  string `json:"kind"`  // pointErr | nodeErr | panic | stoprace (victim stopped while a writer is blocked on its full edge) | share (victim rewrites a tag of points it shares with the bystander)
	At    int    `json:"at"`    // point number (0 = when the node goroutine starts)
	N     int    `json:"n"`     // points written
	Trig  string `json:"trig"`  // pointErr trigger: div0 | substr (built-in that panics) | missing (field absent, referenced twice in one call)
	Flood int    `json:"flood"` // further points written after the scenario's n points (more than the edge buffers hold)
}

type Outcome struct {
	Alive        bool   `json:"alive"`
	VDelivered   []int  `json:"vDelivered"`
	BDelivered   []int  `json:"bDelivered"`
	VErrs        int    `json:"vErrs"`
	VNodeFailed  bool   `json:"vNodeFailed"`
	BNodeFailed  bool   `json:"bNodeFailed"`
	StopReturned bool   `json:"stopReturned"`
	WriteBlocked bool   `json:"writeBlocked"`
	BTagsOK      bool   `json:"bTagsOK"`
	BFlood       int    `json:"bFlood"`
	Leaked       int    `json:"leaked"`
	Note         string `json:"note,omitempty"`
}

var goroutineID = regexp.MustCompile(`^goroutine (\d+) `)

// kapGoroutines returns the ids of goroutines running kapacitor pipeline code.
func kapGoroutines() map[string]string {
	buf := make([]byte, 1<<22)
	n := runtime.Stack(buf, true)
	out := map[string]string{}
	for _, g := range strings.Split(string(buf[:n]), "\n\n") {
		if !strings.Contains(g, "github.com/influxdata/kapacitor.") && !strings.Contains(g, "github.com/influxdata/kapacitor/edge.") {
			continue
		}
		if strings.Contains(g, "kapverif/") && !strings.Contains(g, "kapacitor.(*node).start") {
			continue // harness goroutines calling into kapacitor
		}
		if m := goroutineID.FindStringSubmatch(g); m != nil {
			out[m[1]] = g
		}
	}
	return out
}

func nodeName(sc Scenario) string {
	switch sc.Node {
	case 1:
		return "from1"
	case 2:
		if sc.Kind == "nodeErr" {
			return "alert2"
		}
		return "eval2"
	default:
		return "log3"
	}
}

// RunChild executes one scenario; r.Args[0] is the scenario JSON.
func RunChild(r *rt.Run) (err error) {
	// a panic on this (the harness's own) goroutine is a harness error, never a verdict
	defer func() {
		if x := recover(); x != nil {
			rt.Fatalf("c05child: harness panic: %v", x)
		}
	}()
	var sc Scenario
	if err := json.Unmarshal([]byte(r.Args[0]), &sc); err != nil {
		return err
	}
	target := nodeName(sc)
	var seen atomic.Int64
	parkGate := make(chan struct{})
	kapacitor.VerifHook = func(point string, args ...string) {
		if sc.Kind == "stoprace" && point == "node.run" && args[0] == "v" && args[1] == "stream0" {
			<-parkGate // the victim's first node does not start: its fork edge fills up
			return
		}
		if sc.Kind != "panic" || args[0] != "v" {
			return
		}
		switch point {
		case "node.run":
			if sc.At == 0 && args[1] == target {
				panic("verif: injected panic at node start")
			}
		case "edge.emit":
			if sc.At > 0 && args[2] == target {
				if int(seen.Add(1)) == sc.At {
					panic("verif: injected panic while receiving a message")
				}
			}
		}
	}
	env, err := rt.NewEnv(rt.EnvOpts{})
	if err != nil {
		return err
	}
	base := kapGoroutines()

	mid := `|eval(lambda: 10 / "d").as('q').keep('d', 'q', 'k')`
	from := `from().measurement('m')`
	if sc.Kind == "nodeErr" {
		// natural node error: the alert ID template fails on a short tag value
		mid = `|alert().id('{{ slice (index .Tags "g") 0 2 }}').crit(lambda: TRUE)`
	}
	if sc.Kind == "pointErr" && sc.Trig == "substr" {
		// d = 1 normally, 0 at the faulty point: strSubstring("s", 1 - d ... ) with start 2 > stop 1 panics inside the built-in
		mid = `|where(lambda: strSubstring('str', 2 - 2 * "d", 1) == 's')`
	}
	if sc.Kind == "pointErr" && sc.Trig == "missing" {
		// the faulty point lacks field a; the lambda passes the missing reference twice to one call
		mid = `|where(lambda: max("a", "a") > 0.0)`
	}
	if sc.Kind == "pointErr" && sc.Node == 1 {
		from = `from().measurement('m').where(lambda: 10 / "d" > 0)`
		if sc.Trig == "missing" {
			from = `from().measurement('m').where(lambda: max("a", "a") > 0.0)`
		}
		if sc.Trig == "substr" {
			from = `from().measurement('m').where(lambda: strSubstring('str', 2 - 2 * "d", 1) == 's')`
		}
		mid = `|eval(lambda: "k" + 1).as('q').keep('d', 'q', 'k')`
	}
	if sc.Kind == "share" {
		// rewrites tag g of every point; the bystander receives the same point objects
		mid = `|eval(lambda: strToUpper("g")).as('g').tags('g').keep('d', 'k')`
	}
	vScript := "stream\n|" + from + "\n" + mid + "\n|log().prefix('v')\n"
	bScript := "stream\n|from().measurement('m')\n|eval(lambda: \"k\" + 1).as('q').keep('k', 'q')\n|log().prefix('b')\n"
	if _, err := env.StartTask("v", vScript, kapacitor.StreamTask, rt.DefaultDBRP); err != nil {
		return fmt.Errorf("start v: %w (%s)", err, vScript)
	}
	if _, err := env.StartTask("b", bScript, kapacitor.StreamTask, rt.DefaultDBRP); err != nil {
		return fmt.Errorf("start b: %w", err)
	}
	if sc.Kind == "stoprace" {
		return stopRace(r, env, sc, parkGate, base)
	}
	for k := 1; k <= sc.N; k++ {
		d, g := int64(1), "gg"
		if k == sc.At && sc.Kind == "pointErr" {
			d = 0
		}
		if k == sc.At && sc.Kind == "nodeErr" {
			g = "x"
		}
		fields := map[string]any{"d": d, "k": int64(k), "a": 1.5}
		if k == sc.At && sc.Kind == "pointErr" && sc.Trig == "missing" {
			delete(fields, "a")
		}
		p := rt.MustPoint("m", map[string]string{"g": g}, fields, rt.DefaultTime.T(k))
		if err := env.Write("db", "rp", p); err != nil {
			return fmt.Errorf("write: %w", err)
		}
	}
	out := Outcome{Alive: true}
	// flood: the daemon must keep ingesting (and the bystander keep receiving) far more points than the
	// dead task's edge buffers hold; a blocked WritePoints is recorded, not waited for
	if sc.Flood > 0 {
		wdone := make(chan struct{})
		go func() {
			for k := sc.N + 1; k <= sc.N+sc.Flood; k++ {
				p := rt.MustPoint("m", map[string]string{"g": "gg"}, map[string]any{"d": int64(1), "k": int64(k), "a": 1.5}, rt.DefaultTime.T(k))
				env.Write("db", "rp", p)
			}
			close(wdone)
		}()
		select {
		case <-wdone:
		case <-time.After(45 * time.Second):
			out.WriteBlocked = true
			out.Note = "WritePoints blocked for 45s during the flood"
		}
	}
	// the bystander must see every point; wait for that (a miss is recorded, not assumed)
	if !out.WriteBlocked {
		env.Diag.WaitCount("b", sc.N+sc.Flood, 45*time.Second)
	}
	done := make(chan struct{})
	go func() {
		env.TM.StopTask("b")
		env.TM.StopTask("v")
		close(done)
	}()
	select {
	case <-done:
		out.StopReturned = true
	case <-time.After(30 * time.Second):
		out.Note = "StopTask did not return within 30s"
	}
	// leaked pipeline goroutines (grace period for exits in progress)
	deadline := time.Now().Add(10 * time.Second)
	for {
		cur := kapGoroutines()
		leaked, sample := 0, ""
		for id, g := range cur {
			if _, ok := base[id]; !ok {
				leaked++
				sample = g
			}
		}
		out.Leaked = leaked
		if leaked == 0 || time.Now().After(deadline) {
			if leaked > 0 {
				out.Note += " leaked: " + firstLines(sample, 12)
			}
			break
		}
		time.Sleep(5 * time.Millisecond)
	}
	out.BTagsOK = true
	for _, it := range env.Diag.Items() {
		if it.Sink == "b" {
			if g := it.Point.Tags()["g"]; g != "gg" && g != "x" {
				out.BTagsOK = false // the bystander saw a tag value that was never written
			}
		}
		kv, ok := it.Point.Fields()["k"].(int64)
		if !ok {
			rt.Fatalf("c05child: sink %s saw a point without field k: %v", it.Sink, it.Point.Fields())
		}
		k := int(kv)
		if k > sc.N {
			if it.Sink == "b" {
				out.BFlood++
			}
			continue // flood points are counted, not listed
		}
		if it.Sink == "v" {
			out.VDelivered = append(out.VDelivered, k)
		} else if it.Sink == "b" {
			out.BDelivered = append(out.BDelivered, k)
		}
	}
	for _, e := range env.Diag.Errors() {
		isV := strings.Contains(e.Ctx, "task:v")
		isB := strings.Contains(e.Ctx, "task:b")
		if e.Msg == "node failed" {
			out.VNodeFailed = out.VNodeFailed || isV
			out.BNodeFailed = out.BNodeFailed || isB
			continue
		}
		if isV {
			out.VErrs++
		}
	}
	if s, ok := env.Diag.StoppedWithError("b"); ok && s != "" {
		out.BNodeFailed = true
	}
	b, _ := json.Marshal(out)
	return os.WriteFile(filepath.Join(r.OutDir, "outcome.json"), b, 0o644)
}

func firstLines(s string, n int) string {
	l := strings.Split(s, "\n")
	if len(l) > n {
		l = l[:n]
	}
	return strings.Join(l, " | ")
}

// stopRace: the victim's first node is parked, so its 1000-slot fork edge fills and the forking
// goroutine blocks inside Collect; the victim is then stopped and the node released.  Whatever the
// order, the process must survive, the stop must return and the bystander must get every point.
func stopRace(r *rt.Run, env *rt.Env, sc Scenario, parkGate chan struct{}, base map[string]string) error {
	total := sc.N + sc.Flood
	wdone := make(chan struct{})
	go func() {
		for k := 1; k <= total; k++ {
			p := rt.MustPoint("m", map[string]string{"g": "gg"}, map[string]any{"d": int64(1), "k": int64(k), "a": 1.5}, rt.DefaultTime.T(k))
			env.Write("db", "rp", p)
		}
		close(wdone)
	}()
	// wait until the bystander stops making progress (the forking goroutine is blocked on the victim's full edge)
	last, stable := -1, 0
	for i := 0; i < 4000 && stable < 40; i++ {
		c := env.Diag.Count("b")
		if c == last {
			stable++
		} else {
			stable, last = 0, c
		}
		if c >= total {
			break
		}
		time.Sleep(time.Millisecond)
	}
	out := Outcome{Alive: true, BTagsOK: true}
	sdone := make(chan struct{})
	go func() {
		env.TM.StopTask("v")
		close(sdone)
	}()
	time.Sleep(20 * time.Millisecond)
	close(parkGate) // the parked node may now run (and drain) - with the stop already requested
	select {
	case <-wdone:
	case <-time.After(45 * time.Second):
		out.WriteBlocked = true
		out.Note = "WritePoints still blocked 45s after the victim was stopped and released"
	}
	select {
	case <-sdone:
		out.StopReturned = true
	case <-time.After(45 * time.Second):
		out.Note += " StopTask(v) did not return within 45s"
	}
	if !out.WriteBlocked {
		env.Diag.WaitCount("b", total, 45*time.Second)
	}
	bdone := make(chan struct{})
	go func() { env.TM.StopTask("b"); close(bdone) }()
	select {
	case <-bdone:
	case <-time.After(45 * time.Second):
		out.StopReturned = false
		out.Note += " StopTask(b) did not return within 45s"
	}
	deadline := time.Now().Add(10 * time.Second)
	for {
		cur := kapGoroutines()
		leaked := 0
		for id := range cur {
			if _, ok := base[id]; !ok {
				leaked++
			}
		}
		out.Leaked = leaked
		if leaked == 0 || time.Now().After(deadline) {
			break
		}
		time.Sleep(5 * time.Millisecond)
	}
	for _, it := range env.Diag.Items() {
		kv, _ := it.Point.Fields()["k"].(int64)
		k := int(kv)
		if it.Sink == "v" && k <= sc.N {
			out.VDelivered = append(out.VDelivered, k)
		}
		if it.Sink != "b" {
			continue
		}
		if k > sc.N {
			out.BFlood++
		} else {
			out.BDelivered = append(out.BDelivered, k)
		}
	}
	b, _ := json.Marshal(out)
	return os.WriteFile(filepath.Join(r.OutDir, "outcome.json"), b, 0o644)
}
