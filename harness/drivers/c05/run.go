package c05

import (
	"context"
	"encoding/json"
	"fmt"
	"os"
	"os/exec"
	"path/filepath"
	"sync"
	"time"

	"kapverif/rt"
)

func ints(s []int) []any {
	out := make([]any, len(s))
	for i, x := range s {
		out[i] = x
	}
	return out
}

// Run enumerates the fault alphabet of Containment.tla and runs every scenario
// in a child process.
func Run(r *rt.Run) error {
	const n = 3
	var scs []Scenario
	for node := 1; node <= 3; node++ {
		for at := 0; at <= n; at++ {
			scs = append(scs, Scenario{Node: node, Kind: "panic", At: at, N: n})
		}
	}
	for node := 1; node <= 2; node++ {
		for at := 1; at <= n; at++ {
			scs = append(scs, Scenario{Node: node, Kind: "pointErr", At: at, N: n, Trig: "div0"})
			scs = append(scs, Scenario{Node: node, Kind: "pointErr", At: at, N: n, Trig: "substr"})
			scs = append(scs, Scenario{Node: node, Kind: "pointErr", At: at, N: n, Trig: "missing"})
		}
	}
	for at := 1; at <= n; at++ {
		scs = append(scs, Scenario{Node: 2, Kind: "nodeErr", At: at, N: n})
	}
	// flood variants: a node failure deep in the chain followed by more points than three edge buffers hold
	for node := 2; node <= 3; node++ {
		scs = append(scs, Scenario{Node: node, Kind: "panic", At: 2, N: n, Flood: 3500})
	}
	scs = append(scs, Scenario{Node: 2, Kind: "nodeErr", At: 2, N: n, Flood: 3500})
	// no fault at all: the victim is stopped while a writer is blocked on its full fork edge; and a victim that
	// rewrites a tag of the points it shares with the bystander
	scs = append(scs, Scenario{Node: 1, Kind: "stoprace", At: 0, N: n, Flood: 1500})
	scs = append(scs, Scenario{Node: 2, Kind: "share", At: 0, N: n})
	reps := 1
	if r.Thorough() {
		reps = 5 // schedules differ from run to run (Go scheduler); every observed outcome must be allowed
	}
	self, err := os.Executable()
	if err != nil {
		return err
	}
	type res struct {
		sc  Scenario
		out Outcome
		log string
	}
	results := make([]res, len(scs)*reps)
	sem := make(chan struct{}, 8)
	var wg sync.WaitGroup
	for i := range results {
		i := i
		sc := scs[i%len(scs)]
		wg.Add(1)
		go func() {
			defer wg.Done()
			sem <- struct{}{}
			defer func() { <-sem }()
			dir := filepath.Join(r.OutDir, fmt.Sprintf("child%03d", i))
			os.MkdirAll(dir, 0o755)
			arg, _ := json.Marshal(sc)
			ctx, cancel := context.WithTimeout(context.Background(), 180*time.Second)
			defer cancel()
			cmd := exec.CommandContext(ctx, self, "c05child", "-out", dir, "-seed", fmt.Sprint(r.Seed), string(arg))
			outb, err := cmd.CombinedOutput()
			var o Outcome
			if ctx.Err() != nil {
				rt.Fatalf("c05: child for %s did not finish in 180s:\n%s", arg, tail(string(outb)))
			}
			if b, rerr := os.ReadFile(filepath.Join(dir, "outcome.json")); rerr == nil && err == nil {
				if jerr := json.Unmarshal(b, &o); jerr != nil {
					rt.Fatalf("c05: bad outcome: %v", jerr)
				}
			} else if exit, ok := err.(*exec.ExitError); ok && exit.ExitCode() == 2 && containsHarnessError(string(outb)) {
				rt.Fatalf("c05: child harness error for %s:\n%s", arg, tail(string(outb)))
			} else {
				// the process died (panic exit status 2 from the Go runtime, signal, ...)
				o = Outcome{Alive: false, Note: tail(string(outb))}
			}
			results[i] = res{sc, o, string(outb)}
			os.RemoveAll(dir)
		}()
	}
	wg.Wait()
	t := r.NewTrace("trace")
	for _, x := range results {
		t.Reset(nil)
		t.Event("Scenario", rt.M{"node": x.sc.Node, "kind": x.sc.Kind, "at": x.sc.At, "n": x.sc.N, "trig": x.sc.Trig, "flood": x.sc.Flood})
		t.Event("Outcome", rt.M{"alive": x.out.Alive, "vDelivered": ints(x.out.VDelivered), "bDelivered": ints(x.out.BDelivered),
			"vErrs": x.out.VErrs, "vNodeFailed": x.out.VNodeFailed, "bNodeFailed": x.out.BNodeFailed,
			"stopReturned": x.out.StopReturned, "leaked": x.out.Leaked, "note": x.out.Note,
			"flood": x.sc.Flood, "bFlood": x.out.BFlood, "writeBlocked": x.out.WriteBlocked, "bTagsOK": x.out.BTagsOK})
		t.Distinct(fmt.Sprintf("%d/%s/%d/%s/%d", x.sc.Node, x.sc.Kind, x.sc.At, x.sc.Trig, x.sc.Flood))
	}
	r.Extra["scenarios"] = len(scs)
	r.Extra["repetitions"] = reps
	r.Finish("every fault (node 1..3 x {panic at start / at message k via hooks, point error via integer division by zero in from.where / eval, node error via a failing alert id template} x point 0..3) injected into a victim task running next to a bystander on the real TaskMaster, one child process per scenario; distinct by (node, kind, at)", true)
	return nil
}

func containsHarnessError(s string) bool {
	return len(s) > 0 && (contains(s, "HARNESS-ERROR"))
}
func contains(s, sub string) bool {
	for i := 0; i+len(sub) <= len(s); i++ {
		if s[i:i+len(sub)] == sub {
			return true
		}
	}
	return false
}
func tail(s string) string {
	if len(s) > 1500 {
		return s[len(s)-1500:]
	}
	return s
}
