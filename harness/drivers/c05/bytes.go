package c05

import (
	"fmt"
	"strings"
	"sync/atomic"
	"time"

	"github.com/influxdata/kapacitor/tick/ast"

	"kapverif/rt"
)

// byte alphabet: every byte that starts, continues or ends a lexer state of tick/ast/lex.go
// (operators, quotes, the '/' disambiguation, comments, numbers/durations, references) plus
// NUL, an invalid byte, and the lead and continuation bytes of multi-byte runes.
var byteAlphabet = []byte{
	'a', 'T', 's', 'u', 'e', 'x', '_', '0', '1', '9', '.', '|', '@', '(', ')', '[', ']', ',', '\'', '"', '/', '\\', '\n', ' ', '\t',
	'=', '!', '<', '>', '~', '+', '-', '*', '%', ':', '#', '$', '{', '}', ';', '&', '^', 0x00, 0xff, 0xc3, 0xa9, 0xf0, 0x9f,
}

// contexts in which every short byte string is also offered (prefix, suffix): they put the lexer in each of its
// states (after a chain operator, inside an argument list, in a lambda where '/' may start a regex, inside the three
// string forms, after a declaration) before the enumerated bytes arrive.
var byteContexts = [][2]string{
	{"stream|from()", ""},
	{"stream|from().measurement(", ")"},
	{"stream|from().measurement('", "')"},
	{"stream|from().measurement('''", "''')"},
	{"stream|where(lambda: ", ")"},
	{"stream|where(lambda: \"x\" ", ")"},
	{"stream|where(lambda: \"", "\" > 1)"},
	{"stream|where(lambda: \"x\" =~ /", "/)"},
	{"var x = ", "\nstream|from()"},
	{"var x ", "\nstream|from()"},
	{"stream\n// ", "\n|from()"},
	{"dbrp \"", "\".\"rp\"\nstream|from()"},
	{"stream|eval(lambda: 1", ").as('y')"},
}

// cur is the input being parsed by the enumeration goroutine (read by the watchdog when a parse does not return)
var cur atomic.Pointer[string]

// parseOne: the parser on src as a TICKscript and as a lambda; returns whether the script form was accepted.
func parseOne(src string, t *tally, bad *[]string) (ok bool) {
	if hung.Load() {
		return false
	}
	t.n++
	progress.Add(1)
	cur.Store(&src)
	setCur(src)
	defer func() {
		if x := recover(); x != nil {
			t.panics++
			*bad = append(*bad, fmt.Sprintf("panic %v parsing %q", x, src))
			ok = false
		}
	}()
	_, err := ast.Parse(src)
	_, lerr := ast.ParseLambda(src)
	_, lerr2 := ast.ParseLambda("lambda: " + src)
	if err != nil && lerr != nil && lerr2 != nil {
		t.errs++
	} else {
		t.tasks++
	}
	return err == nil
}

// hung is set once a parse did not come back: the goroutine that runs it cannot be stopped (it may spin and allocate),
// so the family stops there, reports, and the child process ends - which is what gets rid of the goroutine.
var hung atomic.Bool

// guarded runs f with a watchdog: a parse that does not come back within the bound is a hang on the input in cur.
func guarded(t *tally, bad *[]string, f func()) {
	if hung.Load() {
		return
	}
	done := make(chan struct{})
	go func() { defer close(done); f() }()
	// the bound is on ONE definition, not on the batch: progress counts definitions started; no new definition for 30 s
	// means the one in cur has not come back
	last, since := progress.Load(), time.Now()
	for {
		select {
		case <-done:
			return
		case <-time.After(2 * time.Second):
		}
		if p := progress.Load(); p != last {
			last, since = p, time.Now()
			continue
		}
		if time.Since(since) < 30*time.Second {
			continue
		}
		t.hangs++
		hung.Store(true)
		s := ""
		if p := cur.Load(); p != nil {
			s = *p
		}
		*bad = append(*bad, fmt.Sprintf("hang on %q (no answer for 30 s; a definition this short takes microseconds to milliseconds)", s))
		return
	}
}

// progress counts the definitions started (parseOne, defineOne, lambdaOne): the watchdog's heartbeat
var progress atomic.Int64

// rune alphabet: whole characters of every UTF-8 width next to the bytes that switch lexer states
var runeAlphabet = []string{"/", "\n", " ", "a", "'", "\"", "|", "(", "=", "-", "\\", "é", "→", "😀", "1", ")", ".", "~", "!", "\u0301"}

// famRunes: every string of up to 5 (thorough 6) characters over runeAlphabet through the parser entry points.
func famRunes(r *rt.Run, env *rt.Env, emit emitFn) {
	maxLen := 5
	alpha := runeAlphabet[:14] // quick: 14^5 strings; thorough: all 20 characters
	if r.Thorough() {
		alpha = runeAlphabet
	}
	runeAlphabet := alpha
	for length := 1; length <= maxLen; length++ {
		for fi, first := range runeAlphabet {
			var t tally
			var bad []string
			guarded(&t, &bad, func() {
				idx := make([]int, length)
				idx[0] = fi
				for {
					var sb strings.Builder
					for _, k := range idx {
						sb.WriteString(runeAlphabet[k])
					}
					parseOne(sb.String(), &t, &bad)
					p := length - 1
					for p >= 1 {
						idx[p]++
						if idx[p] < len(runeAlphabet) {
							break
						}
						idx[p] = 0
						p--
					}
					if p < 1 {
						break
					}
				}
			})
			emit("runes", length, fmt.Sprintf("%q", first), t, bad)
			if hung.Load() {
				return
			}
		}
	}
	r.Extra["rune_alphabet"] = len(runeAlphabet)
	r.Extra["rune_len"] = maxLen
}

// byteEach: every byte string of the given length starting with first, between pre and suf, through the parser
// (script and lambda entry points); every accepted script also through TaskMaster.NewTask.
var nByteDef int

func byteEach(env *rt.Env, length int, first byte, pre, suf string, t *tally, bad *[]string) {
	idx := make([]int, length)
	buf := make([]byte, length)
	for {
		buf[0] = first
		for i := 1; i < length; i++ {
			buf[i] = byteAlphabet[idx[i]]
		}
		src := pre + string(buf) + suf
		if parseOne(src, t, bad) {
			nByteDef++
			var dt tally
			defineOne(env, fmt.Sprintf("b%d", nByteDef), src, false, &dt, bad)
			t.panics += dt.panics
			t.hangs += dt.hangs
		}
		p := length - 1
		for p >= 1 {
			idx[p]++
			if idx[p] < len(byteAlphabet) {
				break
			}
			idx[p] = 0
			p--
		}
		if p < 1 {
			break
		}
	}
}

// famBytes: every byte string over byteAlphabet up to the length bound.
func famBytes(r *rt.Run, env *rt.Env, emit emitFn) {
	alone := 3
	if r.Thorough() {
		alone = 4
	}
	for length := 1; length <= alone; length++ {
		for _, first := range byteAlphabet {
			var t tally
			var bad []string
			guarded(&t, &bad, func() { byteEach(env, length, first, "", "", &t, &bad) })
			emit("bytes", length, fmt.Sprintf("%q", string([]byte{first})), t, bad)
		}
	}
	r.Extra["byte_alphabet"] = len(byteAlphabet)
	r.Extra["byte_len_alone"] = alone
}

// famBytesCtx: every byte string up to the (smaller) length bound inside every lexer context.
func famBytesCtx(r *rt.Run, env *rt.Env, emit emitFn) {
	inCtx := 2
	if r.Thorough() {
		inCtx = 3
	}
	for ci, c := range byteContexts {
		for length := 1; length <= inCtx; length++ {
			var t tally
			var bad []string
			guarded(&t, &bad, func() {
				for _, first := range byteAlphabet {
					byteEach(env, length, first, c[0], c[1], &t, &bad)
				}
			})
			emit("bytes-ctx", length, fmt.Sprintf("%d:%s", ci, strings.TrimSpace(c[0])), t, bad)
		}
	}
	r.Extra["byte_len_in_context"] = inCtx
	r.Extra["byte_contexts"] = len(byteContexts)
}
