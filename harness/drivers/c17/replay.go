package c17

import (
	"encoding/json"
	"fmt"
	"math/rand"
	"os"
	"path/filepath"
	"runtime"
	"sort"
	"strings"
	"sync"
	"sync/atomic"
	"time"

	"kapverif/rt"
)

func init() { rt.Register("c17", Run) }

// step is one entry of a TLC behaviour (spec/Scheduler/SchedulerSim.tla, variable hist).
type step struct {
	A    string `json:"a"`
	T    string `json:"t"`
	ID   int    `json:"id"`
	K    string `json:"k"`
	E    int    `json:"e"`
	O    int    `json:"o"`
	End  int    `json:"end"`
	Last int    `json:"last"`
	D    int    `json:"d"`
	To   int    `json:"to"`
	Occ  int    `json:"occ"`
	Res  string `json:"res"`
	Wof  []int  `json:"wof"`
	Pre  *struct {
		Sw int `json:"sw"`
		Tk int `json:"tk"`
	} `json:"pre"`
}

type stats struct {
	behaviours, diverged, completeSteps, totalSteps, reruns, onErr, selfQuiescentEarly, raced, viaCoord int
	divergedAt                                                                           map[string]int
}

// replay drives one fresh scheduler through one behaviour and leaves one trace (Reset .. End).
func replay(t *rt.Trace, lane int, name string, beh []step, coord, panicFirst bool, rng *rand.Rand, st *stats) {
	if len(beh) == 0 || beh[0].A != "Init" {
		rt.Fatalf("c17: behaviour %s does not start with Init", name)
	}
	wof := beh[0].Wof
	t.Reset(rt.M{"name": name, "wof": wof})
	y := newSys(t, lane, wof, func() bool { return rng.Intn(5) == 0 })
	if coord {
		y.useCoordinator(rng)
	}
	y.alignedProbe(rng)
	sameWorker := func(a, b int) bool { return wof[a-1] == wof[b-1] }

	diverged := ""
	done := 0
steps:
	for i, s := range beh[1:] {
		y.where = fmt.Sprintf("%s step %d %+v", name, i+1, s)
		if y.apiWaited {
			// an API call returned only after the held executions were let go (recorded in its Ret line)
			diverged = "ApiWaited"
			break steps
		}
		if s.Pre != nil && !y.syncLoop(s.Pre.Sw, s.Pre.Tk) {
			// the loop's unlogged steps did not bring s.when / the timer channel to where the model has them:
			// a difference in internals (or an unusually slow loop goroutine), never a verdict
			diverged = "LoopState"
			if y.apiWaited {
				diverged = "ApiWaited"
			}
			break steps
		}
		switch s.A {
		case "Call":
			if s.T == "S" {
				y.callSchedule(s.ID, s.K, s.E, s.O, s.End, s.Last)
			} else {
				y.callRelease(s.ID)
			}
		case "Adv":
			if !y.advance(s.D) {
				diverged = "MockTick"
				break steps
			}
		case "Start":
			// the model says the worker calls Execute(id, occ) now: wait until the real one has
			var got *gate
			other := false
			t0 := time.Now()
			ok := y.waitFor(fmt.Sprintf("Execute(%d,%d) [%s step %d]", s.ID, s.Occ, name, i+1), func() bool {
				for _, g := range y.gates {
					if g.used {
						continue
					}
					if g.id == s.ID && g.occ == s.Occ {
						got = g
						return true
					}
					// an execution the model does not expect here; it rules ours out if it is the same id
					// (wrong occurrence) or occupies the worker ours needs (benign race for a freed worker)
					if g.id == s.ID || sameWorker(g.id, s.ID) {
						other = true
						return true
					}
				}
				return false
			}, func() bool {
				// It does not show up.  Either the scheduler has nothing due by its own account (When() in the
				// future or zero, read under its lock, and stays so), or it is taking very long.  Stop following
				// the behaviour instead of guessing: everything is let run in the drain below and the
				// specification judges the End line ("nothing due was left behind").  A slow but correct
				// scheduler still yields an accepted trace; one that lost the occurrence does not.
				el := time.Since(t0)
				if el > 4*time.Second {
					return true
				}
				if el < 300*time.Millisecond || !y.selfQuiescent() {
					return false
				}
				time.Sleep(50 * time.Millisecond)
				return y.selfQuiescent()
			})
			if !ok || other || got == nil {
				diverged = "Start"
				break steps
			}
			got.used = true
		case "Finish":
			var g *gate
			y.mu.Lock()
			for _, c := range y.gates {
				if c.used && !c.released && c.id == s.ID && c.occ == s.Occ {
					g = c
					break
				}
			}
			y.mu.Unlock()
			if g == nil {
				diverged = "Finish"
				break steps
			}
			// Which of several due ids gets a freed worker depends on where the spinning loop is when the worker
			// reaches its channel.  Hold the loop (its lock) until the worker has checkpointed and had time to get
			// there, so that the next pass finds it idle from the start, as in the model's quiescent schedule.
			if !y.lockSched() {
				diverged = "ApiWaited"
				break steps
			}
			y.mu.Lock()
			g.released = true
			y.mu.Unlock()
			res := s.Res
			if !y.panicked && panicFirst {
				// every other behaviour lets its first execution end with a panic, whatever the generator chose:
				// the executor-panic path is reached on every lane and worker position in every run
				res = "panic"
			}
			if res == "panic" {
				y.panicked = true
			}
			g.ch <- res
			y.waitFor(fmt.Sprintf("checkpoint after Execute(%d,%d) [%s step %d]", s.ID, s.Occ, name, i+1), func() bool {
				for _, c := range y.ckpts {
					if !c.used && c.id == s.ID && c.occ == s.Occ {
						return true
					}
				}
				return false
			}, nil)
			time.Sleep(150 * time.Microsecond)
			y.unlockSched()
		case "Ckpt":
			y.waitFor(fmt.Sprintf("UpdateLastScheduled(%d,%d) [%s step %d]", s.ID, s.Occ, name, i+1), func() bool {
				for _, c := range y.ckpts {
					if !c.used && c.id == s.ID && c.occ == s.Occ {
						c.used = true
						return true
					}
				}
				return false
			}, nil)
		default:
			rt.Fatalf("c17: unknown step %q in %s", s.A, name)
		}
		done++
		y.debugState(y.where)
	}

	y.finish(name, beh, done, diverged, st)
}

// replayRace uses the same behaviour as a script of environment moves but does NOT wait for the scheduler between
// them: API calls, clock jumps and execution ends race with the loop and the workers as they may.  Whatever happens
// is recorded at the moment it happens and the trace specification (which places the unlogged steps freely) decides.
func replayRace(t *rt.Trace, lane int, name string, beh []step, coord bool, rng *rand.Rand, st *stats) {
	wof := beh[0].Wof
	t.Reset(rt.M{"name": name, "wof": wof, "race": true})
	y := newSys(t, lane, wof, func() bool { return rng.Intn(5) == 0 })
	if coord {
		y.useCoordinator(rng)
	}
	done := 0
	for i, s := range beh[1:] {
		y.where = fmt.Sprintf("%s (race) step %d %+v", name, i+1, s)
		if y.apiWaited {
			break
		}
		switch s.A {
		case "Call":
			if s.T == "S" {
				y.callSchedule(s.ID, s.K, s.E, s.O, s.End, s.Last)
			} else {
				y.callRelease(s.ID)
			}
		case "Adv":
			y.advance(s.D)
		case "Start", "Ckpt":
			// sometimes give the scheduler a moment, sometimes not
			switch rng.Intn(4) {
			case 0:
				time.Sleep(time.Duration(rng.Intn(300)) * time.Microsecond)
			case 1:
				runtime.Gosched()
			}
		case "Finish":
			var g *gate
			y.mu.Lock()
			for _, c := range y.gates {
				if !c.released {
					g = c
					break
				}
			}
			if g != nil {
				g.released = true
			}
			y.mu.Unlock()
			if g != nil {
				g.ch <- s.Res
			}
		}
		done++
	}
	st.raced++
	y.finish(name, beh, done, "", st)
}

// finish: drain (let everything that is due run to completion), ask the scheduler whether it is done, log End, stop.
func (y *sys) finish(name string, beh []step, done int, diverged string, st *stats) {
	t := y.t
	y.where0 = y.where
	y.where = name + " drain"
	// drain: let everything that is due run to completion, then ask the scheduler whether it is done
	y.mu.Lock()
	y.auto = true
	for _, g := range y.gates {
		if !g.released {
			g.released = true
			g.ch <- "ok"
		}
	}
	y.mu.Unlock()
	y.settle()
	y.mu.Lock()
	t.Event("End", rt.M{"now": rel(y.mock.Now())})
	y.mu.Unlock()
	y.within("Stop", func() { y.s.Stop() })

	st.behaviours++
	if y.co != nil {
		st.viaCoord++
	}
	st.totalSteps += len(beh) - 1
	st.completeSteps += done
	if diverged != "" {
		if os.Getenv("C17_DEBUG") != "" {
			y.mu.Lock()
			gs := ""
			for _, g := range y.gates {
				gs += fmt.Sprintf(" (%d,%d used=%v rel=%v)", g.id, g.occ, g.used, g.released)
			}
			y.mu.Unlock()
			fmt.Fprintf(os.Stderr, "DIVERGED %s at %s; gates:%s\n", diverged, y.where0, gs)
		}
		st.diverged++
		st.divergedAt[diverged]++
	}
	y.mu.Lock()
	for _, n := range y.seen {
		if n > 1 {
			st.reruns += n - 1
		}
	}
	st.onErr += y.nErr
	y.mu.Unlock()
}

// guarded runs one replay; a scheduler instance that got stuck (see type stuck) is abandoned and reported.
func guarded(f func()) (msg string) {
	defer func() {
		if r := recover(); r != nil {
			s, ok := r.(stuck)
			if !ok {
				panic(r)
			}
			msg = string(s)
		}
	}()
	f()
	return ""
}

func loadBehaviours(dir string) (names []string, behs [][]step) {
	files, err := filepath.Glob(filepath.Join(dir, "*.json"))
	if err != nil || len(files) == 0 {
		rt.Fatalf("c17: no behaviours in %s", dir)
	}
	sort.Slice(files, func(i, j int) bool {
		a, b := filepath.Base(files[i]), filepath.Base(files[j])
		if len(a) != len(b) {
			return len(a) < len(b)
		}
		return a < b
	})
	for _, f := range files {
		raw, err := os.ReadFile(f)
		if err != nil {
			rt.Fatalf("c17: %v", err)
		}
		var b []step
		if err := json.Unmarshal(raw, &b); err != nil {
			rt.Fatalf("c17: %s: %v", f, err)
		}
		names = append(names, strings.TrimSuffix(filepath.Base(f), ".json"))
		behs = append(behs, b)
	}
	return
}

// Run replays every behaviour under beh=<dir> (TLC -simulate output) on real schedulers, in parallel lanes.
func Run(r *rt.Run) error {
	dir, lanes, race := "", 8, 4
	for _, a := range r.Args {
		if strings.HasPrefix(a, "beh=") {
			dir = strings.TrimPrefix(a, "beh=")
		}
		if strings.HasPrefix(a, "race=") {
			fmt.Sscanf(strings.TrimPrefix(a, "race="), "%d", &race)
		}
		if strings.HasPrefix(a, "lanes=") {
			fmt.Sscanf(strings.TrimPrefix(a, "lanes="), "%d", &lanes)
		}
	}
	if dir == "" {
		rt.Fatalf("c17: argument beh=<dir> required")
	}
	if lanes > len(apiLanes) {
		lanes = len(apiLanes) // each lane has its own marker frame in goroutine dumps (api.go)
	}
	names, behs := loadBehaviours(dir)
	if only := os.Getenv("C17_ONLY"); only != "" {
		for i := range names {
			if names[i] == only {
				names, behs = names[i:i+1], behs[i:i+1]
				break
			}
		}
	}
	var wg sync.WaitGroup
	sts := make([]*stats, lanes)
	traces := make([]*rt.Trace, lanes)
	for l := 0; l < lanes; l++ {
		traces[l] = r.NewTrace(fmt.Sprintf("replay%02d", l))
		sts[l] = &stats{divergedAt: map[string]int{}}
	}
	// A tree on which the replayer keeps losing step with the model is either broken in a way TLC will reject in the
	// traces already recorded, or has drifted from the Impl model: either way replaying thousands more (each costing
	// its waits) adds nothing.  Stop after maxCut behaviours were cut short; the check decides what that means.
	const maxCut = 120
	var cut, skipped int64
	var stuckMu sync.Mutex
	var stuckMsgs []string
	for l := 0; l < lanes; l++ {
		wg.Add(1)
		go func(l int) {
			defer wg.Done()
			rng := rand.New(rand.NewSource(r.Seed*1000 + int64(l)))
			for i := l; i < len(behs); i += lanes {
				if atomic.LoadInt64(&cut) >= maxCut {
					atomic.AddInt64(&skipped, 1)
					continue
				}
				before := sts[l].diverged
				if msg := guarded(func() {
					if race > 0 && i%race == race-1 {
						replayRace(traces[l], l, names[i], behs[i], i%3 == 1, rng, sts[l])
					} else {
						replay(traces[l], l, names[i], behs[i], i%3 == 1, (i/lanes)%2 == 0, rng, sts[l])
					}
				}); msg != "" {
					stuckMu.Lock()
					stuckMsgs = append(stuckMsgs, msg)
					stuckMu.Unlock()
					atomic.StoreInt64(&cut, maxCut) // every lane stops after its current behaviour
					atomic.AddInt64(&skipped, 1)
					continue
				}
				atomic.AddInt64(&cut, int64(sts[l].diverged-before))
				key, _ := json.Marshal(behs[i])
				traces[l].Distinct(string(key))
			}
		}(l)
	}
	wg.Wait()
	tot := &stats{divergedAt: map[string]int{}}
	for _, s := range sts {
		tot.behaviours += s.behaviours
		tot.diverged += s.diverged
		tot.completeSteps += s.completeSteps
		tot.totalSteps += s.totalSteps
		tot.reruns += s.reruns
		tot.onErr += s.onErr
		tot.selfQuiescentEarly += s.selfQuiescentEarly
		tot.raced += s.raced
		tot.viaCoord += s.viaCoord
		for k, v := range s.divergedAt {
			tot.divergedAt[k] += v
		}
	}
	if len(stuckMsgs) > 0 {
		r.Extra["stuck"] = stuckMsgs
	}
	r.Extra["behaviours_replayed"] = tot.behaviours
	r.Extra["behaviours_skipped_after_too_many_cut_short"] = skipped
	r.Extra["behaviours_cut_short_by_a_benign_race_or_deviation"] = tot.diverged
	r.Extra["behaviours_replayed_without_waiting_(race_mode)"] = tot.raced
	r.Extra["behaviours_driven_through_the_coordinator"] = tot.viaCoord
	r.Extra["cut_short_at"] = tot.divergedAt
	r.Extra["steps_replayed"] = tot.completeSteps
	r.Extra["steps_in_behaviours"] = tot.totalSteps
	r.Extra["observation_occurrence_reruns_across_epochs"] = tot.reruns
	r.Extra["on_error_callbacks"] = tot.onErr
	what := "TLC -simulate behaviours of SchedulerSim"
	exhaustive := false
	for _, a := range r.Args {
		if a == "systematic" {
			what = "EVERY behaviour TLC enumerates for SchedulerEnum (breadth first, fixed number of environment moves over the small alphabet)"
			exhaustive = true
		}
	}
	r.Finish(what+" (quiescent schedules of the Impl model: Schedule/re-Schedule/Release with every/cron schedules and offsets, clock jumps of 1-4 s, executions ending ok/error/panic at TLC's chosen moments, 2 ids on 1 or 2 workers) replayed on a real TreeScheduler with a mock clock, a third of them through the real coordinator, a quarter without waiting between moves; distinct by behaviour", exhaustive && skipped == 0)
	return nil
}
