package c17

import (
	"reflect"
	"sync"
	"time"
	"unsafe"

	"github.com/benbjohnson/clock"
	"github.com/influxdata/kapacitor/task/backend/scheduler"

	"kapverif/rt"
)

// internals reaches two private fields of the TreeScheduler, the way the package's own (in-package) tests do:
// its lock, to make mock-clock jumps atomic with respect to the loop, and its timer, to avoid the mock clock's
// blocking tick.  They serve the harness' own safety only - no verdict is derived from them.  If the fields are
// renamed the check is broken (exit 2), not failed.
func internals(s *scheduler.TreeScheduler) (*sync.RWMutex, *clock.Timer) {
	v := reflect.ValueOf(s).Elem()
	mu := v.FieldByName("mu")
	tm := v.FieldByName("timer")
	if !mu.IsValid() || mu.Type() != reflect.TypeOf(sync.RWMutex{}) || !tm.IsValid() || tm.Type() != reflect.TypeOf((*clock.Timer)(nil)) {
		rt.Fatalf("c17: TreeScheduler no longer has fields mu sync.RWMutex / timer *clock.Timer: the replayer needs adapting")
	}
	return (*sync.RWMutex)(unsafe.Pointer(mu.UnsafeAddr())), *(**clock.Timer)(unsafe.Pointer(tm.UnsafeAddr()))
}

// timerWouldFire: is the mock timer armed with a deadline <= target?  (private fields next/stopped of clock.Timer;
// they only change under the scheduler's lock, which the caller holds, or inside the caller's own mock.Add)
func timerWouldFire(t *clock.Timer, target time.Time) bool {
	v := reflect.ValueOf(t).Elem()
	nx, st := v.FieldByName("next"), v.FieldByName("stopped")
	if !nx.IsValid() || !st.IsValid() {
		return true // unknown layout: be conservative
	}
	next := *(*time.Time)(unsafe.Pointer(nx.UnsafeAddr()))
	stopped := *(*bool)(unsafe.Pointer(st.UnsafeAddr()))
	return !stopped && !next.After(target)
}

// chanLen: is a tick waiting in timer.C?
func (y *sys) chanLen() int { return len(y.tmr.C) }
