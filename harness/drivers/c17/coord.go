package c17

import (
	"context"
	"errors"
	"fmt"
	"math/rand"
	"time"

	"github.com/influxdata/influxdb/v2/kit/platform"
	"github.com/influxdata/kapacitor/task/backend/coordinator"
	"github.com/influxdata/kapacitor/task/backend/executor"
	"github.com/influxdata/kapacitor/task/taskmodel"
	"go.uber.org/zap"

	"kapverif/rt"
)

// The coordinator (task/backend/coordinator) is what turns task create/update/delete into Schedule/Release:
// NewSchedulableTask picks lastScheduled = LatestCompleted unless LatestScheduled is set and not older, aligns it to the
// interval for "every" tasks, and TaskUpdated releases on the active->inactive transition and schedules otherwise.
// In coordinator mode the replayer's API moves go through it, so that translation is bound to the specification too.

type noExec struct{}

func (noExec) ManualRun(context.Context, platform.ID, platform.ID) (executor.Promise, error) {
	return nil, errors.New("not used")
}
func (noExec) Cancel(context.Context, platform.ID) error { return nil }

type coordState struct {
	c     *coordinator.Coordinator
	tasks map[int]*taskmodel.Task
	sched map[int]bool // is the id scheduled at the moment (through the coordinator or directly)
	rng   *rand.Rand
}

func (y *sys) useCoordinator(rng *rand.Rand) {
	y.co = &coordState{c: coordinator.NewCoordinator(zap.NewNop(), y.s, noExec{}), tasks: map[int]*taskmodel.Task{}, sched: map[int]bool{}, rng: rng}
}

// viaCoordinator: can this Schedule move be expressed through the coordinator with the same effective lastScheduled?
// ("every" tasks are aligned to the interval by NewSchedule, so only aligned values survive unchanged)
func (y *sys) viaCoordinator(k string, e, last int) bool {
	return y.co != nil && (k != "every" || last%e == 0) // ("unit" tasks are always scheduled from the aligned time)
}

func (y *sys) coordSchedule(id int, k string, e, o, end, last int) {
	co := y.co
	to := &taskmodel.Task{ID: platform.ID(y.real[id]), Status: string(taskmodel.TaskActive), Offset: time.Duration(o) * time.Second,
		CreatedAt: base.Add(-time.Hour)}
	if k == "every" {
		to.Every = fmt.Sprintf("%ds", e)
	} else if k == "unit" {
		to.Every = unitName[e]
	} else {
		to.Cron = schedString(k, e, end)
	}
	// three ways to say "last scheduled at `last`"
	lc, ls := last, -1
	if last >= 1 {
		switch co.rng.Intn(3) {
		case 1:
			ls = last - 1 // older LatestScheduled is ignored
		case 2:
			lc, ls = last-1, last
		}
	}
	to.LatestCompleted = base.Add(time.Duration(lc) * time.Second)
	if ls >= 0 {
		to.LatestScheduled = base.Add(time.Duration(ls) * time.Second)
	}
	y.t.Event("Call", rt.M{"t": "S", "id": id, "k": k, "e": e, "o": o, "end": end, "via": "coord", "lc": lc, "ls": ls})
	var rerr error
	from := co.tasks[id]
	extra := y.apiCall("TaskCreated/TaskUpdated", func() {
		if from == nil {
			rerr = co.c.TaskCreated(context.Background(), to)
		} else {
			rerr = co.c.TaskUpdated(context.Background(), from, to)
		}
	})
	if rerr == nil { // an error (the schedule has no occurrence left) leaves everything as it was
		co.tasks[id] = to
		co.sched[id] = true
	}
	y.ret(rerr, extra)
	y.kick()
}

func (y *sys) coordRelease(id int) {
	co := y.co
	from := co.tasks[id]
	// the ways a task stops being scheduled - or stays that way:
	//   deleted          TaskDeleted
	//   inactive         TaskUpdated active -> inactive
	//   update-inactive  TaskUpdated inactive -> inactive (e.g. renamed while disabled): must stay unscheduled
	//   create-inactive  TaskCreated with status inactive: must not be scheduled
	how := "deleted"
	switch {
	case from == nil && !co.sched[id] && co.rng.Intn(2) == 0:
		how = "create-inactive" // only meaningful for an id that is not scheduled (directly or otherwise)
	case from != nil && from.Status == string(taskmodel.TaskActive) && co.rng.Intn(2) == 0:
		how = "inactive"
	case from != nil && from.Status == string(taskmodel.TaskInactive) && co.rng.Intn(3) != 0:
		how = "update-inactive"
	}
	co.sched[id] = false
	y.t.Event("Call", rt.M{"t": "R", "id": id, "via": "coord", "how": how})
	var rerr error
	extra := y.apiCall("TaskUpdated/TaskCreated/TaskDeleted", func() {
		switch how {
		case "inactive", "update-inactive":
			to := *from
			to.Status = string(taskmodel.TaskInactive)
			to.Name = from.Name + "'"
			rerr = co.c.TaskUpdated(context.Background(), from, &to)
			co.tasks[id] = &to
		case "create-inactive":
			to := &taskmodel.Task{ID: platform.ID(y.real[id]), Status: string(taskmodel.TaskInactive), Every: "1s",
				CreatedAt: base.Add(-time.Hour), LatestCompleted: y.mock.Now().Add(-3 * time.Second)}
			rerr = co.c.TaskCreated(context.Background(), to)
			co.tasks[id] = to
		default:
			rerr = co.c.TaskDeleted(context.Background(), platform.ID(y.real[id]))
			delete(co.tasks, id)
		}
	})
	y.ret(rerr, extra)
	y.kick()
}
