package c17

import (
	"fmt"
	"reflect"
	"regexp"
	"runtime"
	"strings"
	"time"
	"unsafe"

	"github.com/google/btree"
	"github.com/influxdata/kapacitor/task/backend/scheduler"

	"kapverif/rt"
)

// A scheduler that does not run what is due is the liveness half of the property ("runs happen ... exactly once" -
// here: never).  Under a mock clock "it has not happened yet" is no evidence; the driver therefore records a Stuck line
// (which no behaviour of the specification explains: the run of a due occurrence is always eventually enabled,
// EventuallyRuns / NeverStranded) only for a STRUCTURAL reason that cannot go away by waiting, seen unchanged in
// `dumps` observations `dumpGap` apart while the driver is waiting for something that does not come:
//
//	A  a worker goroutine of this scheduler no longer exists although the scheduler was not stopped
//	   (nothing hashed to that worker can ever run again);
//	B  an item in the tree is due, no execution is in flight or held, nothing is blocked in the API, no tick is
//	   waiting in timer.C, the timer is stopped or armed for a time after now, and the scheduler's loop goroutine is
//	   parked in its select: nothing is left that could wake it up before the clock moves.
//
// Anything else (slow machine, waits without such a cause) stays a harness failure: exit 2.
var (
	reCreatedBy = regexp.MustCompile(`created by github\.com/influxdata/kapacitor/task/backend/scheduler\.NewScheduler in goroutine (\d+)`)
	reSelfGid   = regexp.MustCompile(`^goroutine (\d+) \[`)
)

func selfGid() string {
	buf := make([]byte, 64)
	n := runtime.Stack(buf, false)
	if m := reSelfGid.FindSubmatch(buf[:n]); m != nil {
		return string(m[1])
	}
	return ""
}

// family looks at the goroutines NewScheduler started for THIS instance (created by the lane's goroutine; earlier
// instances of the lane have been stopped): the state of the loop goroutine and the number of worker goroutines.
func (y *sys) family() (loop string, workers int) {
	buf := make([]byte, 1<<20)
	n := runtime.Stack(buf, true)
	loop = "gone"
	for _, g := range strings.Split(string(buf[:n]), "\n\n") {
		m := reCreatedBy.FindStringSubmatch(g)
		if m == nil || m[1] != y.gid {
			continue
		}
		h := reGoroutine.FindStringSubmatch(g)
		if h == nil {
			continue
		}
		if strings.Contains(g, "(*TreeScheduler).work") {
			workers++
		} else {
			loop = strings.SplitN(h[2], ",", 2)[0]
		}
	}
	return
}

// dueItem reads the minimum of the scheduler's tree (private fields; the caller holds the scheduler's lock).
func (y *sys) dueItem() (id uint64, when int64, ok bool) {
	f := reflect.ValueOf(y.s).Elem().FieldByName("priorityQueue")
	if !f.IsValid() {
		return 0, 0, false
	}
	q, isTree := reflect.NewAt(f.Type(), unsafe.Pointer(f.UnsafeAddr())).Elem().Interface().(*btree.BTree)
	if !isTree || q == nil || q.Len() == 0 {
		return 0, 0, false
	}
	it := reflect.ValueOf(q.Min())
	fi, fw := it.FieldByName("id"), it.FieldByName("when")
	if !fi.IsValid() || !fw.IsValid() {
		return 0, 0, false
	}
	return fi.Uint(), fw.Int(), true
}

func (y *sys) timerState() (armed bool, at int) {
	v := reflect.ValueOf(y.tmr).Elem()
	nx, st := v.FieldByName("next"), v.FieldByName("stopped")
	if !nx.IsValid() || !st.IsValid() {
		return true, 0
	}
	next := *(*time.Time)(unsafe.Pointer(nx.UnsafeAddr()))
	stopped := *(*bool)(unsafe.Pointer(st.UnsafeAddr()))
	return !stopped, rel(next)
}

// diagnose returns the fields of a Stuck line, or nil if there is no structural reason (see above).
func (y *sys) diagnose() rt.M {
	var a0, b0 string
	for i := 0; i < dumps; i++ {
		if i > 0 {
			time.Sleep(dumpGap)
		}
		loop, workers := y.family()
		a, b := "", ""
		if workers < nWorkers && loop != "gone" {
			a = fmt.Sprintf("%d of %d worker goroutines alive", workers, nWorkers)
		}
		y.mu.Lock()
		quiet := y.openGates() == 0 && y.nStart == y.nCkpt && !y.apiWaited && !y.runaway
		starts := y.nStart
		y.mu.Unlock()
		if quiet && strings.HasPrefix(loop, "select") {
			locked := y.holding || y.smu.TryLock()
			if locked {
				now := y.mock.Now()
				id, when, ok := y.dueItem()
				armed, at := y.timerState()
				if ok && when <= now.Unix() && y.chanLen() == 0 && !(armed && at <= rel(now)) {
					b = fmt.Sprintf("due id=%d when=%d now=%d timer_armed=%v timer_at=%d starts=%d", y.model[scheduler.ID(id)], when-base.Unix(), rel(now), armed, at, starts)
				}
				if !y.holding {
					y.smu.Unlock()
				}
			}
		}
		if i == 0 {
			a0, b0 = a, b
		} else {
			if a != a0 {
				a0 = ""
			}
			if b != b0 {
				b0 = ""
			}
		}
		if a0 == "" && b0 == "" {
			return nil
		}
	}
	if a0 != "" {
		return rt.M{"cause": "a worker goroutine of the scheduler is gone", "evidence": a0, "same_in_dumps": dumps, "now": rel(y.mock.Now())}
	}
	return rt.M{"cause": "a due item, nothing in flight, no tick waiting, the timer not armed for a time <= now, the loop parked in its select",
		"evidence": b0, "loop": "select", "same_in_dumps": dumps, "now": rel(y.mock.Now())}
}

// judgeIfStuck is called from the driver's waits once they have lasted a while: a structural reason is recorded as a
// Stuck line and the instance is given up (the lane stops; the trace is judged).
func (y *sys) judgeIfStuck(waitingFor string) {
	if ev := y.diagnose(); ev != nil {
		ev["waiting_for"] = waitingFor
		y.t.Event("Stuck", ev)
		panic(stuck(fmt.Sprintf("[%s] recorded as Stuck: %s (%s)", y.where, ev["cause"], ev["evidence"])))
	}
}

// nudgeClock: the scheduler reports due work (When() <= now) but nothing in its tree is due yet, its loop is parked and
// its timer is not armed for anything up to the next item's time.  That is not a missed run yet - so the environment
// does what it may always do: it moves the clock to the next item's time (an ordinary, logged clock jump).  A healthy
// scheduler is never found in this state (a pass leaves s.when in the future or zero).
func (y *sys) nudgeClock() bool {
	loop, _ := y.family()
	y.mu.Lock()
	quiet := y.openGates() == 0 && y.nStart == y.nCkpt && !y.apiWaited && !y.runaway
	y.mu.Unlock()
	if !quiet || !strings.HasPrefix(loop, "select") || y.holding || !y.smu.TryLock() {
		return false
	}
	now := y.mock.Now()
	_, when, ok := y.dueItem()
	armed, at := y.timerState()
	tick := y.chanLen()
	y.smu.Unlock()
	d := int(when - now.Unix())
	if !ok || d <= 0 || d > 120 || tick != 0 || (armed && at <= rel(now)+d) {
		return false
	}
	return y.advance(d)
}
