// Package c17: B2/B3 binding of spec/Scheduler to the real TreeScheduler
// (task/backend/scheduler): a mock clock, a gated recording executor and a
// recording checkpointer; TLC behaviours are replayed step by step.
package c17

import (
	"context"
	"encoding/binary"
	"errors"
	"fmt"
	"os"
	"runtime"
	"sync"
	"time"

	"github.com/benbjohnson/clock"
	"github.com/cespare/xxhash"
	"github.com/influxdata/kapacitor/task/backend/scheduler"

	"kapverif/rt"
)

// model time k <-> base + k seconds.  base = 2023-12-31T23:59:48Z: second 48 keeps cron "*/N" (N | 6) in step with
// integer div/mod, and model second 12 (2024-01-01T00:00:00Z, a Monday) is at once an hour, day, 36 h and week boundary of
// the grid Time.Truncate works on - so "@every 1d / 1w / 1d12h" tasks have an occurrence within reach (spec: Boundary).
var base = time.Date(2023, 12, 31, 23, 59, 48, 0, time.UTC)

const boundary = 12

// probeID is never scheduled: Release(probeID) is a legal call without effect (see probe).
const probeID = scheduler.ID(1 << 40)

// unitName: the periods of the model's "unit" schedules (seconds, as options.Duration evaluates them at base).
var unitName = map[int]string{86400: "1d", 604800: "1w", 129600: "1d12h", 2678400: "1mo", 31622400: "1y"}

const (
	maxExecutions = 3000 // per scheduler instance; a 36-step behaviour with the clock below 60 s stays far below
	nWorkers      = 2
	deadline = 40 * time.Second // for every wait; a miss is a harness failure (exit 2), never a verdict
)

func rel(t time.Time) int { return int(t.Unix() - base.Unix()) }

// workerOf mirrors the code's distribution (xxhash of the little-endian id mod #workers); used only to pick
// real ids that realise the model's id->worker map and sentinel ids per worker - never for a verdict.
func workerOf(id uint64) int {
	var buf [8]byte
	binary.LittleEndian.PutUint64(buf[:], id)
	return int(xxhash.Sum64(buf[:]) % nWorkers)
}

type schedulable struct {
	id   scheduler.ID
	s    scheduler.Schedule
	off  time.Duration
	last time.Time
}

func (s schedulable) ID() scheduler.ID             { return s.id }
func (s schedulable) Schedule() scheduler.Schedule { return s.s }
func (s schedulable) Offset() time.Duration        { return s.off }
func (s schedulable) LastScheduled() time.Time     { return s.last }

type gate struct {
	id, occ, seq int
	ch           chan string
	used         bool // matched with a Start step of the behaviour
	released     bool
}

type ckpt struct {
	id, occ int
	used    bool
}

// sys is one real scheduler under test plus everything observed about it.
type sys struct {
	t     *rt.Trace
	mock  *clock.Mock
	s     *scheduler.TreeScheduler
	smu   *sync.RWMutex // the scheduler's own lock (private field mu), held while the mock clock moves - as the package's tests do
	tmr   *clock.Timer  // the scheduler's timer (private field): only len(C) and whether it is about to fire are read
	real  map[int]scheduler.ID // model id -> real id
	model map[scheduler.ID]int
	sent  map[scheduler.ID]int // sentinel id -> worker

	mu       sync.Mutex
	auto     bool
	seq      int
	gates    []*gate // every gated execution, in start order
	ckpts    []*ckpt
	nStart   int
	nCkpt    int
	nErr     int
	runaway  bool // more than maxExecutions executions: recording stopped
	sentExec map[scheduler.ID]int
	sentCk   map[scheduler.ID]int
	seen     map[[2]int]int // (id,occ) -> number of executions (observation: re-runs across epochs)
	notify   chan struct{}
	where    string // behaviour / step being replayed (diagnostics only)
	where0   string
	co       *coordState // non-nil: API moves go through the real coordinator where they can
	gid       string // goroutine id of the lane (NewScheduler's goroutines say "created by ... in goroutine <gid>")
	panicked  bool   // an execution of this instance has ended with a panic
	holding   bool   // the driver holds the scheduler's lock at the moment
	lane      int  // replay lane (picks the marker frame of this instance's API calls)
	apiWaited bool // an API call returned only after the held executions were let go: the scripted part is over
	ckFail   func() bool // seeded: should this checkpoint call report an error?
}

func (y *sys) ping() {
	select {
	case y.notify <- struct{}{}:
	default:
	}
}

// Execute is the recording, gated executor.
func (y *sys) Execute(ctx context.Context, id scheduler.ID, scheduledFor time.Time, runAt time.Time) error {
	if _, ok := y.sent[id]; ok {
		y.mu.Lock()
		y.sentExec[id]++
		y.mu.Unlock()
		y.ping()
		return nil
	}
	mid := y.model[id]
	occ := rel(scheduledFor)
	y.mu.Lock()
	if y.nStart >= maxExecutions {
		// far more executions than any behaviour can ask for: the scheduler keeps handing something out.
		// Stop recording (what is recorded is more than enough for the specification to judge) and let
		// settle() give this instance up.
		y.runaway = true
		y.mu.Unlock()
		y.ping()
		return nil
	}
	y.seq++
	y.nStart++
	y.seen[[2]int{mid, occ}]++
	y.t.Event("ExecStart", rt.M{"id": mid, "occ": occ, "when": rel(runAt), "now": rel(y.mock.Now())})
	if y.auto {
		y.t.Event("ExecEnd", rt.M{"id": mid, "occ": occ, "res": "ok"})
		y.mu.Unlock()
		y.ping()
		return nil
	}
	g := &gate{id: mid, occ: occ, seq: y.seq, ch: make(chan string, 1)}
	y.gates = append(y.gates, g)
	y.mu.Unlock()
	y.ping()
	res := <-g.ch
	y.mu.Lock()
	y.t.Event("ExecEnd", rt.M{"id": mid, "occ": occ, "res": res})
	y.mu.Unlock()
	switch res {
	case "fail":
		return errors.New("execution failed")
	case "panic":
		panic("executor panic")
	}
	return nil
}

// UpdateLastScheduled is the recording checkpointer.
func (y *sys) UpdateLastScheduled(ctx context.Context, id scheduler.ID, t time.Time) error {
	if _, ok := y.sent[id]; ok {
		y.mu.Lock()
		y.sentCk[id]++
		y.mu.Unlock()
		y.ping()
		return nil
	}
	mid := y.model[id]
	y.mu.Lock()
	if y.runaway {
		y.mu.Unlock()
		return nil
	}
	y.nCkpt++
	y.ckpts = append(y.ckpts, &ckpt{id: mid, occ: rel(t)})
	y.t.Event("Ckpt", rt.M{"id": mid, "occ": rel(t)})
	fail := y.ckFail != nil && y.ckFail()
	y.mu.Unlock()
	y.ping()
	if fail {
		return errors.New("checkpoint store unavailable")
	}
	return nil
}

// pickIDs returns increasing real ids (model ids 1..n) that realise the worker map wof on the code's
// hash distribution, and one sentinel id per worker, larger than all of them.
func pickIDs(wof []int) (ids map[int]scheduler.ID, sent map[scheduler.ID]int) {
	ids = map[int]scheduler.ID{}
	sent = map[scheduler.ID]int{}
	next := uint64(1)
	w0 := workerOf(next) // the real worker that plays the model worker of id 1
	for i := range wof {
		for (workerOf(next) == w0) != (wof[i] == wof[0]) {
			next++
		}
		ids[i+1] = scheduler.ID(next)
		next++
	}
	need := map[int]bool{}
	for w := 0; w < nWorkers; w++ {
		need[w] = true
	}
	for c := next; len(need) > 0; c++ {
		if w := workerOf(c); need[w] {
			sent[scheduler.ID(c)] = w
			delete(need, w)
		}
	}
	return
}

func newSys(t *rt.Trace, lane int, wof []int, ckFail func() bool) *sys {
	y := &sys{t: t, lane: lane, gid: selfGid(), mock: clock.NewMock(), notify: make(chan struct{}, 1), ckFail: ckFail,
		sentExec: map[scheduler.ID]int{}, sentCk: map[scheduler.ID]int{}, seen: map[[2]int]int{}}
	y.mock.Set(base)
	y.real, y.sent = pickIDs(wof)
	y.model = map[scheduler.ID]int{}
	for m, r := range y.real {
		y.model[r] = m
	}
	s, _, err := scheduler.NewScheduler(y, y, scheduler.WithTime(y.mock), scheduler.WithMaxConcurrentWorkers(nWorkers),
		scheduler.WithOnErrorFn(func(_ context.Context, _ scheduler.ID, _ time.Time, _ error) {
			y.mu.Lock()
			y.nErr++
			y.mu.Unlock()
		}))
	if err != nil {
		rt.Fatalf("c17: NewScheduler: %v", err)
	}
	y.s = s
	y.smu, y.tmr = internals(s)
	return y
}

// stuck is how a replay gives up on ONE scheduler instance: a wait missed its deadline (an expected execution or
// checkpoint never showed up, an API call or the clock did not return, the scheduler never became quiescent).
// It is not a verdict and it is not thrown away either: the lane stops, everything recorded so far is still
// validated - if the specification rejects something the code did before getting stuck, that is the finding; if
// not, the check reports itself broken with this message (exit 2).
type stuck string

// fatal abandons the scheduler under test (which may be blocked for good, possibly with its lock held).
func (y *sys) fatal(format string, a ...any) {
	msg := fmt.Sprintf("[%s] %s", y.where, fmt.Sprintf(format, a...))
	if os.Getenv("C17_STACKS") != "" {
		buf := make([]byte, 1<<16)
		n := runtime.Stack(buf, true)
		fmt.Fprintf(os.Stderr, "STUCK %s\n%s\n", msg, buf[:n])
	}
	panic(stuck(msg))
}

// within runs f in a goroutine and fails the harness if it does not return in time
// ("Schedule/Release/clock always return promptly": a miss is reported as a broken check, exit 2).
func (y *sys) within(what string, f func()) {
	done := make(chan struct{})
	go func() { f(); close(done) }()
	select {
	case <-done:
	case <-time.After(deadline):
		y.fatal("%s did not return within %v (scheduler stuck?)", what, deadline)
	}
}

// waitFor blocks until pred() holds (checked under y.mu); every observation pings.
// giveUp (optional, checked now and then without y.mu held) lets the caller stop waiting for a positive reason.
func (y *sys) waitFor(what string, pred func() bool, giveUp func() bool) bool {
	t0 := time.Now()
	nextJudge := 1500 * time.Millisecond
	end := t0.Add(deadline)
	poll := time.NewTimer(time.Hour)
	defer poll.Stop()
	for i := 0; ; i++ {
		y.mu.Lock()
		ok := pred()
		y.mu.Unlock()
		if ok {
			return true
		}
		if giveUp != nil && i > 0 && giveUp() {
			return false
		}
		if time.Now().After(end) {
			y.fatal("waited %v for %s", deadline, what)
		}
		if el := time.Since(t0); el > nextJudge {
			y.judgeIfStuck(what)
			nextJudge = el + 2*time.Second
		}
		poll.Reset(20 * time.Millisecond)
		select {
		case <-y.notify:
		case <-poll.C:
		}
	}
}

// schedString: "@every Ns", "@every 1d|1w|1d12h|1mo|1y" (kind "unit", e = the period in seconds), cron
// "*/N * * * * * *", or - kind "until" - a cron expression with a year field: confined to the last minute of 2023
// (model seconds 0..end, end < boundary) or to the first minute of 2024 (boundary..end) it has a LAST occurrence
// (the largest multiple of N <= end); after it cron.Next fails ("could not fulfil schedule due to year").
func schedString(k string, e, end int) string {
	switch {
	case k == "every":
		return fmt.Sprintf("@every %ds", e)
	case k == "unit":
		u, ok := unitName[e]
		if !ok {
			rt.Fatalf("c17: no unit schedule with a period of %d s", e)
		}
		return "@every " + u
	case k == "until" && end < boundary:
		if end < 1 {
			rt.Fatalf("c17: ending schedule with end=%d", end)
		}
		return fmt.Sprintf("%d-%d/%d 59 23 31 12 * 2023", base.Second(), base.Second()+end, e)
	case k == "until":
		if end <= boundary || end > boundary+59 {
			rt.Fatalf("c17: ending schedule with end=%d", end)
		}
		return fmt.Sprintf("0-%d/%d 0 0 1 1 * 2024", end-boundary, e)
	case e == 1:
		return "* * * * * * *"
	}
	return fmt.Sprintf("*/%d * * * * * *", e)
}

// safeAdd moves the mock clock by d seconds while holding the scheduler's lock, exactly like the package's own tests
// (`sch.mu.Lock(); mockTime.Set(..); sch.mu.Unlock()`): the loop never sees the clock change in the middle of a pass.
// benbjohnson/clock v1.1.0 delivers a tick with a BLOCKING send while holding the clock's mutex, so a second tick on
// top of one the loop has not taken would block for ever (the loop needs that mutex for Now()).  A real timer drops
// the tick instead.  So: if a tick is waiting and the timer would fire, give the loop a moment to take it; if it does
// not (it is spinning on a busy worker) report false and let the caller decide.
func (y *sys) safeAdd(d int, locked func()) bool {
	for try := 0; try < 400; try++ {
		if !y.lockSched() {
			return false
		}
		target := y.mock.Now().Add(time.Duration(d) * time.Second)
		if len(y.tmr.C) == 1 && timerWouldFire(y.tmr, target) {
			y.unlockSched()
			time.Sleep(100 * time.Microsecond)
			continue
		}
		if locked != nil {
			locked() // e.g. log AdvBegin: only once it is certain that the clock will move
		}
		y.within("mock.Add", func() { y.mock.Add(time.Duration(d) * time.Second) })
		y.unlockSched()
		return true
	}
	return false
}

// kick: a timer armed with Reset(0) fires by itself on a real clock; the mock only fires inside Add.
// If the tick cannot be delivered the loop is busy anyway and will see the new item on its next round.
func (y *sys) kick() { y.safeAdd(0, nil) }

// callSchedule / callRelease / advance: the environment's moves, logged before and after.
func (y *sys) callSchedule(id int, k string, e, o, end, last int) {
	if y.viaCoordinator(k, e, last) {
		y.coordSchedule(id, k, e, o, end, last)
		return
	}
	raw := base.Add(time.Duration(last) * time.Second)
	// NewSchedule also returns lastScheduled aligned to the period ("@every" only); logged (al) and judged.
	// A unit task (1d, 1w, ...) is scheduled from that aligned time - as the coordinator does it -, the others
	// from the raw time (an "@every Ns" grid relative to any second is part of the alphabet).
	sc, aligned, err := scheduler.NewSchedule(schedString(k, e, end), raw)
	if err != nil {
		rt.Fatalf("c17: NewSchedule(%q): %v", schedString(k, e, end), err)
	}
	from := raw
	if k == "unit" {
		from = aligned
	}
	y.t.Event("Call", rt.M{"t": "S", "id": id, "k": k, "e": e, "o": o, "end": end, "last": last, "al": rel(aligned)})
	var rerr error
	extra := y.apiCall("Schedule", func() {
		rerr = y.s.Schedule(schedulable{y.real[id], sc, time.Duration(o) * time.Second, from})
	})
	if y.co != nil && rerr == nil {
		y.co.sched[id] = true
		// scheduled behind the coordinator's back: the next coordinator move for this id starts from no record
		delete(y.co.tasks, id)
	}
	y.ret(rerr, extra)
	y.kick()
}

func (y *sys) callRelease(id int) {
	if y.co != nil {
		y.coordRelease(id)
		return
	}
	y.t.Event("Call", rt.M{"t": "R", "id": id})
	var rerr error
	extra := y.apiCall("Release", func() { rerr = y.s.Release(y.real[id]) })
	y.ret(rerr, extra)
	y.kick()
}

func (y *sys) advance(d int) bool {
	to := rel(y.mock.Now()) + d
	if !y.safeAdd(d, func() { y.t.Event("AdvBegin", rt.M{"to": to}) }) {
		return false // nothing happened, nothing logged
	}
	if got := rel(y.mock.Now()); got != to {
		rt.Fatalf("c17: mock clock at %d after Add, expected %d", got, to)
	}
	y.t.Event("AdvEnd", rt.M{"to": to})
	return true
}

func errStr(e error) string {
	if e == nil {
		return ""
	}
	return e.Error()
}

// openGates counts gated executions that have not been released.
func (y *sys) openGates() int {
	n := 0
	for _, g := range y.gates {
		if !g.released {
			n++
		}
	}
	return n
}

// selfQuiescent: by the scheduler's own account nothing is due (When() is zero or in the future).
func (y *sys) selfQuiescent() bool {
	w, ok := y.when()
	return ok && (w.IsZero() || w.After(y.mock.Now()))
}

// flush proves that every worker has finished what it was handed: one sentinel task per worker, due now,
// can only be received by a worker that is back at its channel.  Only call when no gate is closed.
func (y *sys) flush() {
	sc, _, err := scheduler.NewSchedule("@every 1000h", base)
	if err != nil {
		rt.Fatalf("c17: sentinel schedule: %v", err)
	}
	want := map[scheduler.ID]int{}
	y.mu.Lock()
	for id := range y.sent {
		want[id] = y.sentCk[id] + 1
	}
	y.mu.Unlock()
	for id := range y.sent {
		id := id
		y.within("Schedule(sentinel)", func() {
			if err := y.s.Schedule(schedulable{id, sc, 0, y.mock.Now().Add(-1000 * time.Hour)}); err != nil {
				rt.Fatalf("c17: sentinel: %v", err)
			}
		})
	}
	y.kick()
	y.waitFor("sentinel executions", func() bool {
		for id, n := range want {
			if y.sentCk[id] < n {
				return false
			}
		}
		return true
	}, nil)
	for id := range y.sent {
		id := id
		y.within("Release(sentinel)", func() { y.s.Release(id) })
	}
}

// settle waits until the scheduler is quiescent by its own account and every worker is flushed, with all gates open.
func (y *sys) settle() {
	t0 := time.Now()
	nextJudge := 1500 * time.Millisecond
	end := t0.Add(deadline)
	for {
		y.waitFor("executions to finish", func() bool { return y.runaway || y.nStart == y.nCkpt }, nil)
		y.mu.Lock()
		ra := y.runaway
		y.mu.Unlock()
		if ra {
			y.fatal("runaway: the scheduler handed out more than %d executions", maxExecutions)
		}
		if !y.selfQuiescent() {
			if el := time.Since(t0); el > nextJudge {
				y.judgeIfStuck("the scheduler to run what is due")
				y.nudgeClock()
				nextJudge = el + 2*time.Second
			}
			if time.Now().After(end) {
				y.fatal("scheduler still has due work after %v (When=%d now=%d chanlen=%d)", deadline, rel(y.s.When()), rel(y.mock.Now()), y.chanLen())
			}
			// on a real clock a timer that is due fires by itself; the mock needs an Add (whoever armed it)
			y.kick()
			time.Sleep(200 * time.Microsecond)
			continue
		}
		y.mu.Lock()
		n0 := y.nStart
		y.mu.Unlock()
		y.flush()
		y.mu.Lock()
		stable := y.nStart == n0 && y.nStart == y.nCkpt
		y.mu.Unlock()
		if stable && y.selfQuiescent() {
			return
		}
	}
}

// syncLoop waits until the loop's unlogged steps have brought the scheduler where the model's quiescent schedule
// has it before the environment's next move: s.when (None = zero) and whether a tick is waiting in the timer channel.
func (y *sys) syncLoop(sw, tk int) bool {
	end := time.Now().Add(1 * time.Second)
	for i := 0; ; i++ {
		w, ok := y.when() // RLock: never observes a pass half way
		if !ok {
			return false
		}
		got := -1
		if !w.IsZero() {
			got = rel(w)
		}
		if got == sw && y.chanLen() == tk {
			return true
		}
		if time.Now().After(end) {
			return false
		}
		if i < 50 {
			runtime.Gosched()
		} else {
			time.Sleep(50 * time.Microsecond)
		}
	}
}

// alignedProbe records what NewSchedule alone returns as aligned lastScheduled for one "@every" period and one
// moment around the boundary (line Aligned, judged by the specification's Align) - all units, also those whose
// occurrences the replay never reaches (1mo, 1y).
func (y *sys) alignedProbe(rng interface{ Intn(int) int }) {
	periods := []int{1, 2, 3, 86400, 604800, 129600, 2678400, 31622400}
	e := periods[rng.Intn(len(periods))]
	last := rng.Intn(31)
	k, str := "unit", ""
	if e < 60 {
		k, str = "every", fmt.Sprintf("@every %ds", e)
	} else {
		str = "@every " + unitName[e]
	}
	_, al, err := scheduler.NewSchedule(str, base.Add(time.Duration(last)*time.Second))
	if err != nil {
		y.t.Event("Aligned", rt.M{"k": k, "e": e, "last": last, "al": 0, "err": err.Error()})
		return
	}
	y.t.Event("Aligned", rt.M{"k": k, "e": e, "last": last, "al": rel(al)})
}
