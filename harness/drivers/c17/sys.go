// Package c17: B2/B3 binding of spec/Scheduler to the real TreeScheduler
// (task/backend/scheduler): a mock clock, a gated recording executor and a
// recording checkpointer; TLC behaviours are replayed step by step.
package c17

import (
	"context"
	"encoding/binary"
	"errors"
	"fmt"
	"os"
	"runtime"
	"sync"
	"time"

	"github.com/benbjohnson/clock"
	"github.com/cespare/xxhash"
	"github.com/influxdata/kapacitor/task/backend/scheduler"

	"kapverif/rt"
)

// model time k <-> base + k seconds; base is a whole hour so that cron "*/N" (N | 60) agrees with integer div/mod.
var base = time.Unix(1699999200, 0).UTC()

const (
	maxExecutions = 3000 // per scheduler instance; a 36-step behaviour with the clock below 60 s stays far below
	nWorkers      = 2
	deadline = 40 * time.Second // for every wait; a miss is a harness failure (exit 2), never a verdict
)

func rel(t time.Time) int { return int(t.Unix() - base.Unix()) }

// workerOf mirrors the code's distribution (xxhash of the little-endian id mod #workers); used only to pick
// real ids that realise the model's id->worker map and sentinel ids per worker - never for a verdict.
func workerOf(id uint64) int {
	var buf [8]byte
	binary.LittleEndian.PutUint64(buf[:], id)
	return int(xxhash.Sum64(buf[:]) % nWorkers)
}

type schedulable struct {
	id   scheduler.ID
	s    scheduler.Schedule
	off  time.Duration
	last time.Time
}

func (s schedulable) ID() scheduler.ID             { return s.id }
func (s schedulable) Schedule() scheduler.Schedule { return s.s }
func (s schedulable) Offset() time.Duration        { return s.off }
func (s schedulable) LastScheduled() time.Time     { return s.last }

type gate struct {
	id, occ, seq int
	ch           chan string
	used         bool // matched with a Start step of the behaviour
	released     bool
}

type ckpt struct {
	id, occ int
	used    bool
}

// sys is one real scheduler under test plus everything observed about it.
type sys struct {
	t     *rt.Trace
	mock  *clock.Mock
	s     *scheduler.TreeScheduler
	smu   *sync.RWMutex // the scheduler's own lock (private field mu), held while the mock clock moves - as the package's tests do
	tmr   *clock.Timer  // the scheduler's timer (private field): only len(C) and whether it is about to fire are read
	real  map[int]scheduler.ID // model id -> real id
	model map[scheduler.ID]int
	sent  map[scheduler.ID]int // sentinel id -> worker

	mu       sync.Mutex
	auto     bool
	seq      int
	gates    []*gate // every gated execution, in start order
	ckpts    []*ckpt
	nStart   int
	nCkpt    int
	nErr     int
	runaway  bool // more than maxExecutions executions: recording stopped
	sentExec map[scheduler.ID]int
	sentCk   map[scheduler.ID]int
	seen     map[[2]int]int // (id,occ) -> number of executions (observation: re-runs across epochs)
	notify   chan struct{}
	where    string // behaviour / step being replayed (diagnostics only)
	where0   string
	co       *coordState // non-nil: API moves go through the real coordinator where they can
	ckFail   func() bool // seeded: should this checkpoint call report an error?
}

func (y *sys) ping() {
	select {
	case y.notify <- struct{}{}:
	default:
	}
}

// Execute is the recording, gated executor.
func (y *sys) Execute(ctx context.Context, id scheduler.ID, scheduledFor time.Time, runAt time.Time) error {
	if _, ok := y.sent[id]; ok {
		y.mu.Lock()
		y.sentExec[id]++
		y.mu.Unlock()
		y.ping()
		return nil
	}
	mid := y.model[id]
	occ := rel(scheduledFor)
	y.mu.Lock()
	if y.nStart >= maxExecutions {
		// far more executions than any behaviour can ask for: the scheduler keeps handing something out.
		// Stop recording (what is recorded is more than enough for the specification to judge) and let
		// settle() give this instance up.
		y.runaway = true
		y.mu.Unlock()
		y.ping()
		return nil
	}
	y.seq++
	y.nStart++
	y.seen[[2]int{mid, occ}]++
	y.t.Event("ExecStart", rt.M{"id": mid, "occ": occ, "when": rel(runAt), "now": rel(y.mock.Now())})
	if y.auto {
		y.t.Event("ExecEnd", rt.M{"id": mid, "occ": occ, "res": "ok"})
		y.mu.Unlock()
		y.ping()
		return nil
	}
	g := &gate{id: mid, occ: occ, seq: y.seq, ch: make(chan string, 1)}
	y.gates = append(y.gates, g)
	y.mu.Unlock()
	y.ping()
	res := <-g.ch
	y.mu.Lock()
	y.t.Event("ExecEnd", rt.M{"id": mid, "occ": occ, "res": res})
	y.mu.Unlock()
	switch res {
	case "fail":
		return errors.New("execution failed")
	case "panic":
		panic("executor panic")
	}
	return nil
}

// UpdateLastScheduled is the recording checkpointer.
func (y *sys) UpdateLastScheduled(ctx context.Context, id scheduler.ID, t time.Time) error {
	if _, ok := y.sent[id]; ok {
		y.mu.Lock()
		y.sentCk[id]++
		y.mu.Unlock()
		y.ping()
		return nil
	}
	mid := y.model[id]
	y.mu.Lock()
	if y.runaway {
		y.mu.Unlock()
		return nil
	}
	y.nCkpt++
	y.ckpts = append(y.ckpts, &ckpt{id: mid, occ: rel(t)})
	y.t.Event("Ckpt", rt.M{"id": mid, "occ": rel(t)})
	fail := y.ckFail != nil && y.ckFail()
	y.mu.Unlock()
	y.ping()
	if fail {
		return errors.New("checkpoint store unavailable")
	}
	return nil
}

// pickIDs returns increasing real ids (model ids 1..n) that realise the worker map wof on the code's
// hash distribution, and one sentinel id per worker, larger than all of them.
func pickIDs(wof []int) (ids map[int]scheduler.ID, sent map[scheduler.ID]int) {
	ids = map[int]scheduler.ID{}
	sent = map[scheduler.ID]int{}
	next := uint64(1)
	w0 := workerOf(next) // the real worker that plays the model worker of id 1
	for i := range wof {
		for (workerOf(next) == w0) != (wof[i] == wof[0]) {
			next++
		}
		ids[i+1] = scheduler.ID(next)
		next++
	}
	need := map[int]bool{}
	for w := 0; w < nWorkers; w++ {
		need[w] = true
	}
	for c := next; len(need) > 0; c++ {
		if w := workerOf(c); need[w] {
			sent[scheduler.ID(c)] = w
			delete(need, w)
		}
	}
	return
}

func newSys(t *rt.Trace, wof []int, ckFail func() bool) *sys {
	y := &sys{t: t, mock: clock.NewMock(), notify: make(chan struct{}, 1), ckFail: ckFail,
		sentExec: map[scheduler.ID]int{}, sentCk: map[scheduler.ID]int{}, seen: map[[2]int]int{}}
	y.mock.Set(base)
	y.real, y.sent = pickIDs(wof)
	y.model = map[scheduler.ID]int{}
	for m, r := range y.real {
		y.model[r] = m
	}
	s, _, err := scheduler.NewScheduler(y, y, scheduler.WithTime(y.mock), scheduler.WithMaxConcurrentWorkers(nWorkers),
		scheduler.WithOnErrorFn(func(_ context.Context, _ scheduler.ID, _ time.Time, _ error) {
			y.mu.Lock()
			y.nErr++
			y.mu.Unlock()
		}))
	if err != nil {
		rt.Fatalf("c17: NewScheduler: %v", err)
	}
	y.s = s
	y.smu, y.tmr = internals(s)
	return y
}

// stuck is how a replay gives up on ONE scheduler instance: a wait missed its deadline (an expected execution or
// checkpoint never showed up, an API call or the clock did not return, the scheduler never became quiescent).
// It is not a verdict and it is not thrown away either: the lane stops, everything recorded so far is still
// validated - if the specification rejects something the code did before getting stuck, that is the finding; if
// not, the check reports itself broken with this message (exit 2).
type stuck string

// fatal abandons the scheduler under test (which may be blocked for good, possibly with its lock held).
func (y *sys) fatal(format string, a ...any) {
	msg := fmt.Sprintf("[%s] %s", y.where, fmt.Sprintf(format, a...))
	if os.Getenv("C17_STACKS") != "" {
		buf := make([]byte, 1<<16)
		n := runtime.Stack(buf, true)
		fmt.Fprintf(os.Stderr, "STUCK %s\n%s\n", msg, buf[:n])
	}
	panic(stuck(msg))
}

// within runs f in a goroutine and fails the harness if it does not return in time
// ("Schedule/Release/clock always return promptly": a miss is reported as a broken check, exit 2).
func (y *sys) within(what string, f func()) {
	done := make(chan struct{})
	go func() { f(); close(done) }()
	select {
	case <-done:
	case <-time.After(deadline):
		y.fatal("%s did not return within %v (scheduler stuck?)", what, deadline)
	}
}

// waitFor blocks until pred() holds (checked under y.mu); every observation pings.
// giveUp (optional, checked now and then without y.mu held) lets the caller stop waiting for a positive reason.
func (y *sys) waitFor(what string, pred func() bool, giveUp func() bool) bool {
	end := time.Now().Add(deadline)
	poll := time.NewTimer(time.Hour)
	defer poll.Stop()
	for i := 0; ; i++ {
		y.mu.Lock()
		ok := pred()
		y.mu.Unlock()
		if ok {
			return true
		}
		if giveUp != nil && i > 0 && giveUp() {
			return false
		}
		if time.Now().After(end) {
			y.fatal("waited %v for %s", deadline, what)
		}
		poll.Reset(20 * time.Millisecond)
		select {
		case <-y.notify:
		case <-poll.C:
		}
	}
}

// schedString: "@every Ns", cron "*/N * * * * * *", or - kind "until" - a cron expression with a year field that is
// confined to the first minute of model time and to the seconds 0..end: it has a LAST occurrence (the largest
// multiple of N <= end); after it cron.Next fails ("could not fulfil schedule due to year").
func schedString(k string, e, end int) string {
	switch {
	case k == "every":
		return fmt.Sprintf("@every %ds", e)
	case k == "until":
		if end < 1 || end > 59 {
			rt.Fatalf("c17: ending schedule with end=%d (must be 1..59)", end)
		}
		return fmt.Sprintf("0-%d/%d %d %d %d %d * %d", end, e, base.Minute(), base.Hour(), base.Day(), int(base.Month()), base.Year())
	case e == 1:
		return "* * * * * * *"
	}
	return fmt.Sprintf("*/%d * * * * * *", e)
}

// safeAdd moves the mock clock by d seconds while holding the scheduler's lock, exactly like the package's own tests
// (`sch.mu.Lock(); mockTime.Set(..); sch.mu.Unlock()`): the loop never sees the clock change in the middle of a pass.
// benbjohnson/clock v1.1.0 delivers a tick with a BLOCKING send while holding the clock's mutex, so a second tick on
// top of one the loop has not taken would block for ever (the loop needs that mutex for Now()).  A real timer drops
// the tick instead.  So: if a tick is waiting and the timer would fire, give the loop a moment to take it; if it does
// not (it is spinning on a busy worker) report false and let the caller decide.
func (y *sys) safeAdd(d int, locked func()) bool {
	for try := 0; try < 400; try++ {
		y.smu.Lock()
		target := y.mock.Now().Add(time.Duration(d) * time.Second)
		if len(y.tmr.C) == 1 && timerWouldFire(y.tmr, target) {
			y.smu.Unlock()
			time.Sleep(100 * time.Microsecond)
			continue
		}
		if locked != nil {
			locked() // e.g. log AdvBegin: only once it is certain that the clock will move
		}
		y.within("mock.Add", func() { y.mock.Add(time.Duration(d) * time.Second) })
		y.smu.Unlock()
		return true
	}
	return false
}

// kick: a timer armed with Reset(0) fires by itself on a real clock; the mock only fires inside Add.
// If the tick cannot be delivered the loop is busy anyway and will see the new item on its next round.
func (y *sys) kick() { y.safeAdd(0, nil) }

// callSchedule / callRelease / advance: the environment's moves, logged before and after.
func (y *sys) callSchedule(id int, k string, e, o, end, last int) {
	if y.viaCoordinator(k, e, last) {
		y.coordSchedule(id, k, e, o, end, last)
		return
	}
	sc, _, err := scheduler.NewSchedule(schedString(k, e, end), base)
	if err != nil {
		rt.Fatalf("c17: NewSchedule(%q): %v", schedString(k, e, end), err)
	}
	y.t.Event("Call", rt.M{"t": "S", "id": id, "k": k, "e": e, "o": o, "end": end, "last": last})
	var rerr error
	y.within("Schedule", func() {
		rerr = y.s.Schedule(schedulable{y.real[id], sc, time.Duration(o) * time.Second, base.Add(time.Duration(last) * time.Second)})
	})
	if y.co != nil && rerr == nil {
		y.co.sched[id] = true
		// scheduled behind the coordinator's back: the next coordinator move for this id starts from no record
		delete(y.co.tasks, id)
	}
	y.t.Event("Ret", rt.M{"err": errStr(rerr)})
	y.kick()
}

func (y *sys) callRelease(id int) {
	if y.co != nil {
		y.coordRelease(id)
		return
	}
	y.t.Event("Call", rt.M{"t": "R", "id": id})
	var rerr error
	y.within("Release", func() { rerr = y.s.Release(y.real[id]) })
	y.t.Event("Ret", rt.M{"err": errStr(rerr)})
	y.kick()
}

func (y *sys) advance(d int) bool {
	to := rel(y.mock.Now()) + d
	if !y.safeAdd(d, func() { y.t.Event("AdvBegin", rt.M{"to": to}) }) {
		return false // nothing happened, nothing logged
	}
	if got := rel(y.mock.Now()); got != to {
		rt.Fatalf("c17: mock clock at %d after Add, expected %d", got, to)
	}
	y.t.Event("AdvEnd", rt.M{"to": to})
	return true
}

func errStr(e error) string {
	if e == nil {
		return ""
	}
	return e.Error()
}

// openGates counts gated executions that have not been released.
func (y *sys) openGates() int {
	n := 0
	for _, g := range y.gates {
		if !g.released {
			n++
		}
	}
	return n
}

// selfQuiescent: by the scheduler's own account nothing is due (When() is zero or in the future).
func (y *sys) selfQuiescent() bool {
	w := y.s.When()
	return w.IsZero() || w.After(y.mock.Now())
}

// flush proves that every worker has finished what it was handed: one sentinel task per worker, due now,
// can only be received by a worker that is back at its channel.  Only call when no gate is closed.
func (y *sys) flush() {
	sc, _, err := scheduler.NewSchedule("@every 1000h", base)
	if err != nil {
		rt.Fatalf("c17: sentinel schedule: %v", err)
	}
	want := map[scheduler.ID]int{}
	y.mu.Lock()
	for id := range y.sent {
		want[id] = y.sentCk[id] + 1
	}
	y.mu.Unlock()
	for id := range y.sent {
		id := id
		y.within("Schedule(sentinel)", func() {
			if err := y.s.Schedule(schedulable{id, sc, 0, y.mock.Now().Add(-1000 * time.Hour)}); err != nil {
				rt.Fatalf("c17: sentinel: %v", err)
			}
		})
	}
	y.kick()
	y.waitFor("sentinel executions", func() bool {
		for id, n := range want {
			if y.sentCk[id] < n {
				return false
			}
		}
		return true
	}, nil)
	for id := range y.sent {
		id := id
		y.within("Release(sentinel)", func() { y.s.Release(id) })
	}
}

// settle waits until the scheduler is quiescent by its own account and every worker is flushed, with all gates open.
func (y *sys) settle() {
	end := time.Now().Add(deadline)
	for {
		y.waitFor("executions to finish", func() bool { return y.runaway || y.nStart == y.nCkpt }, nil)
		y.mu.Lock()
		ra := y.runaway
		y.mu.Unlock()
		if ra {
			y.fatal("runaway: the scheduler handed out more than %d executions", maxExecutions)
		}
		if !y.selfQuiescent() {
			if time.Now().After(end) {
				y.fatal("scheduler still has due work after %v (When=%d now=%d chanlen=%d)", deadline, rel(y.s.When()), rel(y.mock.Now()), y.chanLen())
			}
			// on a real clock a timer that is due fires by itself; the mock needs an Add (whoever armed it)
			y.kick()
			time.Sleep(200 * time.Microsecond)
			continue
		}
		y.mu.Lock()
		n0 := y.nStart
		y.mu.Unlock()
		y.flush()
		y.mu.Lock()
		stable := y.nStart == n0 && y.nStart == y.nCkpt
		y.mu.Unlock()
		if stable && y.selfQuiescent() {
			return
		}
	}
}

// syncLoop waits until the loop's unlogged steps have brought the scheduler where the model's quiescent schedule
// has it before the environment's next move: s.when (None = zero) and whether a tick is waiting in the timer channel.
func (y *sys) syncLoop(sw, tk int) bool {
	end := time.Now().Add(1 * time.Second)
	for i := 0; ; i++ {
		w := y.s.When() // RLock: never observes a pass half way
		got := -1
		if !w.IsZero() {
			got = rel(w)
		}
		if got == sw && y.chanLen() == tk {
			return true
		}
		if time.Now().After(end) {
			return false
		}
		if i < 50 {
			runtime.Gosched()
		} else {
			time.Sleep(50 * time.Microsecond)
		}
	}
}
