package c17

import (
	"fmt"
	"regexp"
	"runtime"
	"strings"
	"time"

	"kapverif/rt"
)

// "Scheduling, rescheduling and releasing always return promptly": in the specification Schedule and Release take the
// scheduler's lock for one bounded critical section and never wait for an execution (ApiNeverWaitsForExecution).
// The driver holds executions in its gated executor, so it can tell "slow" from "waits for the execution":
//
//  1. the call has not returned after `grace` although nothing but a held execution is going on;
//  2. in `dumps` goroutine dumps, `dumpGap` apart, the SAME goroutine - the one making the call - is parked in
//     sync.(*RWMutex).Lock / sync.(*Mutex).Lock called from the scheduler package, while a worker is parked in the
//     driver's executor;
//  3. the driver lets the held executions go - and the call returns.
//
// Only all three together are recorded as Ret{waited:true}, which no behaviour of the specification explains.
// A call that just does not come back (nothing held, or the evidence is not there) stays a harness failure.
const (
	grace   = 700 * time.Millisecond
	dumps   = 4
	dumpGap = 200 * time.Millisecond
)

var (
	reGoroutine = regexp.MustCompile(`^goroutine (\d+) \[([^\]]*)\]`)
	reSchedFile = regexp.MustCompile(`task/backend/scheduler/(\w+\.go):(\d+)`)
)

type lockEvidence struct {
	gid    string // goroutine id of the caller
	state  string // e.g. "sync.RWMutex.Lock"
	frame  string // innermost frame in the scheduler package, e.g. "treescheduler.go:305"
	fn     string // its function, e.g. "scheduler.(*TreeScheduler).Release"
	parked int    // workers parked in the driver's executor
}

// inspect takes one goroutine dump and looks for a goroutine whose stack contains marker, parked on a sync lock that
// was requested from the scheduler package, together with at least one worker parked in this driver's Execute.
func inspect(marker string) (ev lockEvidence, ok bool) {
	buf := make([]byte, 1<<20)
	n := runtime.Stack(buf, true)
	var caller []string
	for _, g := range strings.Split(string(buf[:n]), "\n\n") {
		lines := strings.Split(g, "\n")
		m := reGoroutine.FindStringSubmatch(lines[0])
		if m == nil {
			continue
		}
		switch {
		case strings.Contains(g, marker):
			caller = lines
			ev.gid, ev.state = m[1], m[2]
		case strings.Contains(g, "c17.(*sys).Execute") && strings.HasPrefix(m[2], "chan receive"):
			ev.parked++
		}
	}
	if caller == nil || ev.parked == 0 {
		return ev, false
	}
	st := strings.SplitN(ev.state, ",", 2)[0] // drop ", 2 minutes" etc.
	if !(strings.Contains(st, "Mutex.Lock") || strings.Contains(st, "Mutex.RLock") || st == "semacquire") {
		return ev, false
	}
	ev.state = st
	// the lock must have been asked for by the scheduler package: first frame in it, below the sync frames
	for i, ln := range caller {
		if f := reSchedFile.FindStringSubmatch(ln); f != nil && i > 0 {
			ev.frame = f[1] + ":" + f[2]
			ev.fn = strings.TrimSpace(caller[i-1])
			if k := strings.LastIndex(ev.fn, "("); k > 0 {
				ev.fn = ev.fn[:k]
			}
			if k := strings.LastIndex(ev.fn, "/"); k >= 0 {
				ev.fn = ev.fn[k+1:]
			}
			return ev, true
		}
	}
	return ev, false
}

// waitsForExecution decides point 2 for the call running under marker; done is closed when the call returns.
func (y *sys) waitsForExecution(marker string, done <-chan struct{}) (lockEvidence, bool) {
	var first lockEvidence
	for i := 0; i < dumps; i++ {
		if i > 0 {
			select {
			case <-done:
				return first, false
			case <-time.After(dumpGap):
			}
		}
		ev, ok := inspect(marker)
		if !ok {
			return ev, false
		}
		if i == 0 {
			first = ev
		} else if ev.gid != first.gid || ev.frame != first.frame || ev.state != first.state {
			return ev, false
		}
	}
	return first, true
}

// letGo opens every gate that is still closed and makes the executor pass-through from now on (the scripted part of
// the behaviour is over after this; an execution handed out next must not park the scheduler again).
func (y *sys) letGo() int {
	y.mu.Lock()
	defer y.mu.Unlock()
	y.auto = true
	n := 0
	for _, g := range y.gates {
		if !g.released {
			g.released = true
			g.ch <- "ok"
			n++
		}
	}
	return n
}

// apiCall makes one call into the scheduler (or the coordinator) on its own goroutine and returns the fields to add
// to its Ret line: nothing for a call that returned by itself, waited/evidence for one that waited for an execution.
// Calls made by different lanes at the same time are told apart by the marker function on their stack.
func (y *sys) apiCall(what string, f func()) rt.M {
	done := make(chan struct{})
	go y.apiCallMarker(f, done)
	t0 := time.Now()
	timer := time.NewTimer(grace)
	defer timer.Stop()
	select {
	case <-done:
		return nil
	case <-timer.C:
	}
	for time.Since(t0) < deadline {
		y.mu.Lock()
		held := y.openGates()
		y.mu.Unlock()
		if held > 0 {
			if ev, ok := y.waitsForExecution(y.marker(), done); ok {
				n := y.letGo()
				t1 := time.Now()
				select {
				case <-done:
				case <-time.After(deadline):
					y.fatal("%s did not return even after the %d held execution(s) were let go", what, n)
				}
				y.apiWaited = true
				return rt.M{"waited": true, "blocked_in": ev.state, "called_from": ev.fn + " " + ev.frame,
					"same_in_dumps": dumps, "held_executions": n,
					"blocked_ms": int(t1.Sub(t0) / time.Millisecond), "returned_ms_after_release": int(time.Since(t1) / time.Millisecond)}
			}
		}
		select {
		case <-done:
			return nil // slow, but it came back by itself
		case <-time.After(dumpGap):
		}
	}
	y.fatal("%s did not return within %v (scheduler stuck?)", what, deadline)
	return nil
}

// Each sys gets its own marker frame name through a small set of distinct functions (a goroutine dump shows function
// names, not receivers): lanes are numbered, the lane picks the function.
func (y *sys) marker() string { return fmt.Sprintf("c17.apiLane%02d", y.lane%len(apiLanes)) }
func (y *sys) apiCallMarker(f func(), done chan struct{}) {
	apiLanes[y.lane%len(apiLanes)](f)
	close(done)
}

// ret logs the Ret line of an API move.
func (y *sys) ret(err error, extra rt.M) {
	m := rt.M{"err": errStr(err)}
	for k, v := range extra {
		m[k] = v
	}
	y.t.Event("Ret", m)
}

// probe: a Release of an id that was never scheduled - a legal call without any effect - made when the driver itself
// cannot get at the scheduler (its lock or When()) while an execution is held: the same question, asked through the API.
func (y *sys) probe() {
	y.t.Event("Call", rt.M{"t": "P"})
	var rerr error
	extra := y.apiCall("Release(probe)", func() { rerr = y.s.Release(probeID) })
	y.ret(rerr, extra)
}

// lockSched takes the scheduler's own lock for the driver (clock jumps, hand-over of a freed worker).  If that takes
// longer than grace while an execution is held, ask through the API (probe); false = the scripted part is over.
func (y *sys) lockSched() bool {
	got := make(chan struct{})
	drop := make(chan struct{})
	go func() {
		y.smu.Lock()
		select {
		case got <- struct{}{}:
		case <-drop:
			y.smu.Unlock()
		}
	}()
	t0 := time.Now()
	for time.Since(t0) < deadline {
		select {
		case <-got:
			y.holding = true
			return true
		case <-time.After(grace):
		}
		y.mu.Lock()
		held := y.openGates()
		y.mu.Unlock()
		if held > 0 {
			y.probe()
			if y.apiWaited {
				close(drop)
				return false
			}
		}
	}
	close(drop)
	y.fatal("the scheduler's lock could not be taken within %v", deadline)
	return false
}

// when is When() with the same care (it takes the read lock).
func (y *sys) when() (w time.Time, ok bool) {
	res := make(chan time.Time, 1)
	go func() { res <- y.s.When() }()
	t0 := time.Now()
	for time.Since(t0) < deadline {
		select {
		case w = <-res:
			return w, true
		case <-time.After(grace):
		}
		y.mu.Lock()
		held := y.openGates()
		y.mu.Unlock()
		if held > 0 {
			y.probe()
			if y.apiWaited {
				return time.Time{}, false
			}
		}
	}
	y.fatal("When() did not return within %v", deadline)
	return time.Time{}, false
}

// distinct functions so that a goroutine dump tells the lanes' API calls apart
var apiLanes = []func(func()){
	apiLane00, apiLane01, apiLane02, apiLane03, apiLane04, apiLane05, apiLane06, apiLane07,
	apiLane08, apiLane09, apiLane10, apiLane11, apiLane12, apiLane13, apiLane14, apiLane15,
}

//go:noinline
func apiLane00(f func()) { f() }

//go:noinline
func apiLane01(f func()) { f() }

//go:noinline
func apiLane02(f func()) { f() }

//go:noinline
func apiLane03(f func()) { f() }

//go:noinline
func apiLane04(f func()) { f() }

//go:noinline
func apiLane05(f func()) { f() }

//go:noinline
func apiLane06(f func()) { f() }

//go:noinline
func apiLane07(f func()) { f() }

//go:noinline
func apiLane08(f func()) { f() }

//go:noinline
func apiLane09(f func()) { f() }

//go:noinline
func apiLane10(f func()) { f() }

//go:noinline
func apiLane11(f func()) { f() }

//go:noinline
func apiLane12(f func()) { f() }

//go:noinline
func apiLane13(f func()) { f() }

//go:noinline
func apiLane14(f func()) { f() }

//go:noinline
func apiLane15(f func()) { f() }

func (y *sys) unlockSched() {
	y.holding = false
	y.smu.Unlock()
}
