package c17

import (
	"fmt"
	"os"
	"reflect"
	"runtime"
	"unsafe"

	"github.com/google/btree"
)

// debugState prints internal state of the scheduler (diagnostics only, C17_DEBUG=2).
func (y *sys) debugState(what string) {
	if os.Getenv("C17_DEBUG") != "2" {
		return
	}
	tmr := y.tmr
	if os.Getenv("C17_DUMPAT") != "" && len(what) > 12 && what[:12] == os.Getenv("C17_DUMPAT") && len(tmr.C) == 1 {
		buf := make([]byte, 1<<16)
		n := runtime.Stack(buf, true)
		fmt.Fprintf(os.Stderr, "%s\n", buf[:n])
		y.dumpQueue()
	}
	fmt.Fprintf(os.Stderr, "%-70s now=%d when=%d chanlen=%d\n", what, rel(y.mock.Now()), rel(y.s.When()), len(tmr.C))
}

func (y *sys) dumpQueue() {
	f := reflect.ValueOf(y.s).Elem().FieldByName("priorityQueue")
	q := reflect.NewAt(f.Type(), unsafe.Pointer(f.UnsafeAddr())).Elem().Interface().(*btree.BTree)
	nt := reflect.ValueOf(y.s).Elem().FieldByName("nextTime")
	fmt.Fprintf(os.Stderr, "QUEUE len=%d nextTime=%v base=%d\n", q.Len(), nt, base.Unix())
	q.Ascend(func(i btree.Item) bool { fmt.Fprintf(os.Stderr, "   item %+v\n", i); return true })
}
