package c12

import (
	"encoding/json"
	"fmt"
	"os"

	"kapverif/rt"
)

// RunProbe executes scenarios given as JSON on the command line / in a file and
// prints the recorded trace (manual reproduction of a suspected deviation):
//
//	kvh c12probe -out DIR '<json>'      json = {"cfg":{...},"parents":[[{"T":1,"G":"x","V":1}..]..],"sched":[{"Src":0}..]}
func RunProbe(r *rt.Run) error {
	installGateHook()
	rn, err := newRunner("p")
	if err != nil {
		return err
	}
	defer rn.close()
	t := r.NewTrace("probe")
	for _, a := range r.Args {
		var in struct {
			Cfg     Cfg
			Parents [][]Msg
			Sched   []Step
			Gated   bool
		}
		b := []byte(a)
		if len(a) > 0 && a[0] == '@' {
			b, err = os.ReadFile(a[1:])
			if err != nil {
				return err
			}
		}
		if err := json.Unmarshal(b, &in); err != nil {
			return err
		}
		fmt.Println(in.Cfg.script())
		if in.Gated {
			rn.RunGated(t, in.Cfg, in.Parents, in.Sched)
		} else {
			rn.Run(t, in.Cfg, in.Parents, in.Sched)
		}
	}
	r.Finish("manual probe", false)
	b, _ := os.ReadFile(t.Path())
	os.Stdout.Write(b)
	return nil
}
