package c12

import (
	"fmt"

	"github.com/influxdata/kapacitor"

	"kapverif/rt"
)

// RunCQ drives the exported kapacitor.CircularQueue directly: every operation
// sequence of the given length over {Enqueue, Dequeue(0|1|2|3|100)} from every
// initial size, logging Len and Peek(0..Len-1) after every operation (the whole
// API-level state).  Validated against CircularQueue.tla by CircularQueueTrace.
func RunCQ(r *rt.Run) error {
	// one trace file per initial size (+ one for the random runs): bounded memory per validating JVM
	var t *rt.Trace
	length := 6
	inits := []int{0, 1, 4, 5}
	deqs := []int{1, 2, 100}
	if r.Thorough() {
		length = 8
		inits = []int{0, 1, 3, 4, 5, 7}
	}
	nops := 1 + len(deqs)
	obs := func(q *kapacitor.CircularQueue[int]) (m rt.M) {
		m = rt.M{"len": q.Len, "panic": false}
		items := []any{}
		defer func() {
			if e := recover(); e != nil {
				m["panic"] = true
				m["items"] = items
			}
		}()
		for i := 0; i < q.Len; i++ {
			items = append(items, q.Peek(i))
		}
		m["items"] = items
		return m
	}
	runSeq := func(init int, ops []int) {
		buf := make([]int, init)
		for i := range buf {
			buf[i] = i + 1
		}
		q := kapacitor.NewCircularQueue(buf...)
		o := obs(q)
		o["init"] = init
		t.Reset(o)
		next := init + 1
		key := fmt.Sprint(init, ":")
		for _, op := range ops {
			var m rt.M
			func() {
				defer func() {
					if e := recover(); e != nil {
						m = rt.M{"len": q.Len, "panic": true, "items": []any{}}
					}
				}()
				if op == 0 {
					q.Enqueue(next)
				} else {
					q.Dequeue(deqs[op-1])
				}
				m = obs(q)
			}()
			if op == 0 {
				m["v"] = next
				next++
				t.Event("Enq", m)
				key += "E"
			} else {
				m["n"] = deqs[op-1]
				t.Event("Deq", m)
				key += fmt.Sprint("D", deqs[op-1])
			}
		}
		t.Distinct(key)
	}
	// every sequence of exactly `length` operations (all shorter ones are its prefixes)
	for _, init := range inits {
		t = r.NewTrace(fmt.Sprintf("cq-init%d", init))
		ops := make([]int, length)
		var rec func(i int)
		rec = func(i int) {
			if i == length {
				runSeq(init, ops)
				return
			}
			for o := 0; o < nops; o++ {
				ops[i] = o
				rec(i + 1)
			}
		}
		rec(0)
	}
	// seeded long random sequences: several growth steps and many wraps
	t = r.NewTrace("cq-random")
	nr := 300
	if r.Thorough() {
		nr = 3000
	}
	for i := 0; i < nr; i++ {
		n := 20 + r.Rand.Intn(60)
		ops := make([]int, n)
		for k := range ops {
			if r.Rand.Intn(5) < 3 {
				ops[k] = 0
			} else {
				ops[k] = 1 + r.Rand.Intn(len(deqs))
			}
		}
		runSeq(inits[r.Rand.Intn(len(inits))], ops)
	}
	r.Extra["cq_sequence_length"] = length
	r.Extra["cq_init_sizes"] = len(inits)
	r.Finish(fmt.Sprintf("the exported CircularQueue driven with every operation sequence of length %d over Enqueue/Dequeue(n) from every initial size, plus seeded long random sequences; Len and every Peek(i) logged after each operation", length), true)
	return nil
}
