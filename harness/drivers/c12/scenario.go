// Package c12: join/union results do not depend on how parent streams
// interleave (spec/JoinUnion).  B3: real join/union tasks are fed one parent
// message at a time in a forced arrival order; the driver waits until the
// join/union node has finished that message (procTS) before sending the next.
package c12

import (
	"fmt"
	"regexp"
	"sort"
	"strings"
	"time"

	"github.com/influxdata/kapacitor"
	"github.com/influxdata/kapacitor/edge"
	"github.com/influxdata/kapacitor/models"

	"kapverif/rt"
)

// Msg is one parent message of the model alphabet.
//
//	T  model time (stream: point time; batch: tmax of the batch)
//	G  group: stream/batch tag g (plain join/union) or, for join.on, "x" for the
//	   less specific parent (tag b=x) and "x1" for the specific one (b=x, f=1)
//	V  unique positive id carried in field "v"
//	P  batch only: model times of the points inside the batch (ids V*10+i)
type Msg struct {
	T int
	G string
	V int
	P []int
}

// Cfg is the node configuration of one scenario.
type Cfg struct {
	Kind string // "join" | "union"
	Edge string // "stream" | "batch"
	N    int    // number of parents
	Fill string // "none" | "null" | "num"     (join)
	Tol  int    // tolerance in model time units (join); 0 = exact
	On   bool   // join.on('b'): parent 0 grouped by b, parent 1 by b,f
	// Barrier: every parent gets |barrier().idle(100ms) (wall-clock driven; used with Sleep steps and
	// times that are 1000 units apart so that the barriers stay truthful however long a pause takes).
	Barrier bool `json:",omitempty"`
	// Streamed: batch parents get |where(lambda: "v" > 0) below the query node, which forwards every batch as the
	// unbuffered sequence begin, point*, end; the multiConsumer's reader reassembles it (edge.BatchBuffer).
	Streamed bool `json:",omitempty"`
	// Script, if set, replaces the generated TICKscript (manual probes only).
	Script string `json:",omitempty"`
}

func (c Cfg) String() string {
	return fmt.Sprintf("%s/%s/n%d/%s/tol%d/on%v/bar%v/str%v", c.Kind, c.Edge, c.N, c.Fill, c.Tol, c.On, c.Barrier, c.Streamed)
}

var parentNames = []string{"a", "b", "c"}

var batchQueryRe = []*regexp.Regexp{
	regexp.MustCompile(`FROM "?db"?\."?rp"?\."?a"?( |$)`),
	regexp.MustCompile(`FROM "?db"?\."?rp"?\."?b"?( |$)`),
	regexp.MustCompile(`FROM "?db"?\."?rp"?\."?c"?( |$)`),
}

const fillNum = 0 // .fill(0): ids are >= 1, so 0 never collides with a real value

// script builds the TICKscript of a scenario.
func (c Cfg) script() string {
	if c.Script != "" {
		return c.Script
	}
	var sb strings.Builder
	for i := 0; i < c.N; i++ {
		nm := parentNames[i]
		if c.Edge == "stream" {
			gb := ".groupBy('g')"
			if c.On {
				gb = ".groupBy('b')"
				if i > 0 {
					gb = ".groupBy('b', 'f')"
				}
			}
			bar := ""
			if c.Barrier {
				bar = "|barrier().idle(100ms)"
			}
			fmt.Fprintf(&sb, "var %s = stream|from().measurement('%s')%s%s\n", nm, nm, gb, bar)
		} else {
			gb := ".groupBy('g')"
			if c.On {
				gb = ".groupBy('b')"
				if i > 0 {
					gb = ".groupBy('b', 'f')"
				}
			}
			st := ""
			if c.Streamed {
				st = "|where(lambda: \"v\" > 0)"
			}
			fmt.Fprintf(&sb, "var %s = batch|query('SELECT v FROM db.rp.%s').period(10s).every(1000h)%s%s\n", nm, nm, gb, st)
		}
	}
	others := strings.Join(parentNames[1:c.N], ", ")
	if c.Kind == "union" {
		fmt.Fprintf(&sb, "a|union(%s)|log().prefix('out')\n", others)
		return sb.String()
	}
	as := make([]string, c.N)
	for i := range as {
		as[i] = "'" + parentNames[i] + "'"
	}
	fmt.Fprintf(&sb, "a|join(%s).as(%s)", others, strings.Join(as, ", "))
	if c.Tol > 0 {
		fmt.Fprintf(&sb, ".tolerance(%ds)", c.Tol)
	}
	switch c.Fill {
	case "null":
		sb.WriteString(".fill('null')")
	case "num":
		fmt.Fprintf(&sb, ".fill(%d)", fillNum)
	}
	if c.On {
		sb.WriteString(".on('b')")
	}
	sb.WriteString("|log().prefix('out')\n")
	return sb.String()
}

func (c Cfg) tags(src int, g string) map[string]string {
	if !c.On {
		return map[string]string{"g": g}
	}
	if len(g) > 1 {
		return map[string]string{"b": g[:1], "f": g[1:]}
	}
	return map[string]string{"b": g}
}

// Step of a schedule: deliver the next message of parent Src, or (Close) close
// parent Src (batch only: stream parents share one source and end together).
type Step struct {
	Src   int
	Close bool
	// SleepMs > 0: wait that long instead of delivering (manual probes with wall-clock driven nodes only).
	SleepMs int `json:",omitempty"`
}

// runner owns one assembled environment and runs scenarios on it one at a time.
type runner struct {
	env  *rt.Env
	ts   *procTS
	seq  int
	name string
	tmap rt.TimeMap
}

func newRunner(name string) (*runner, error) {
	env, err := rt.NewEnv(rt.EnvOpts{})
	if err != nil {
		return nil, err
	}
	ts := newProcTS()
	env.TM.TimingService = ts
	return &runner{env: env, ts: ts, name: name, tmap: rt.DefaultTime}, nil
}

func (r *runner) close() { r.env.Close() }

const stepTimeout = 60 * time.Second

// nodeFailed reports whether a node of the current task has died.
func (r *runner) nodeFailed() bool {
	for _, e := range r.env.Diag.Errors() {
		if e.Msg == "node failed" {
			return true
		}
	}
	return false
}

func vfield(f models.Fields, key string) int {
	v, ok := f[key]
	if !ok {
		return -2 // field absent
	}
	switch x := v.(type) {
	case nil:
		return -1 // null fill
	case int64:
		return int(x)
	case float64:
		if x == float64(int(x)) {
			return int(x)
		}
	}
	return -3 // unexpected type/value
}

// encOut encodes one sink message.
func (r *runner) encOut(c Cfg, it rt.SinkItem) rt.M {
	if it.Point != nil {
		p := it.Point
		k, ok := r.tmap.KOK(p.Time())
		if !ok {
			k = -1
		}
		m := rt.M{"t": k, "g": string(p.GroupID()), "name": p.Name()}
		if c.Kind == "union" {
			m["v"] = vfield(p.Fields(), "v")
			return m
		}
		vals := make([]any, c.N)
		for i := 0; i < c.N; i++ {
			vals[i] = vfield(p.Fields(), parentNames[i]+".v")
		}
		m["vals"] = vals
		m["nf"] = len(p.Fields())
		return m
	}
	b := it.Batch
	k, ok := r.tmap.KOK(b.Time())
	if !ok {
		k = -1
	}
	m := rt.M{"t": k, "g": string(b.GroupID()), "name": b.Name()}
	pts := make([]any, 0, len(b.Points()))
	for _, bp := range b.Points() {
		pk, ok := r.tmap.KOK(bp.Time())
		if !ok {
			pk = -1
		}
		pm := rt.M{"t": pk}
		if c.Kind == "union" {
			pm["v"] = vfield(bp.Fields(), "v")
		} else {
			vals := make([]any, c.N)
			for i := 0; i < c.N; i++ {
				vals[i] = vfield(bp.Fields(), parentNames[i]+".v")
			}
			pm["vals"] = vals
			pm["nf"] = len(bp.Fields())
		}
		pts = append(pts, pm)
	}
	m["pts"] = pts
	if c.Kind == "union" {
		// batch id = id of its first point / 10 (every driver batch has >= 1 point)
		m["v"] = -1
		if len(b.Points()) > 0 {
			if v := vfield(b.Points()[0].Fields(), "v"); v > 0 {
				m["v"] = v / 10
			}
		}
	}
	return m
}

func encParents(ps [][]Msg) []any {
	out := make([]any, len(ps))
	for i, p := range ps {
		ms := make([]any, len(p))
		for j, m := range p {
			mm := rt.M{"t": m.T, "g": m.G, "v": m.V}
			if m.P != nil {
				pp := make([]any, len(m.P))
				for k, x := range m.P {
					pp[k] = x
				}
				mm["p"] = pp
			}
			ms[j] = mm
		}
		out[i] = ms
	}
	return out
}

// groupString is the GroupID the real code derives for tags (no ByName).
func groupString(tags map[string]string) string {
	ks := make([]string, 0, len(tags))
	for k := range tags {
		ks = append(ks, k)
	}
	sort.Strings(ks)
	d := models.Dimensions{TagNames: ks}
	return string(models.ToGroupID("", tags, d))
}

// Run executes one scenario on the real code and records its trace:
//
//	Reset{cfg, parents}  Deliver{src, k, out:[...]}*  Close{src}*  Finish{out:[...], failed}
//
// out lists what reached the sink below the join/union during that step.
func (r *runner) Run(t *rt.Trace, c Cfg, parents [][]Msg, sched []Step) {
	r.run(t, c, parents, sched, false)
}

// RunGated is Run for a Streamed batch task with the schedule at MESSAGE granularity: every step lets the
// reader of parent Src handle its next begin/point/end message (see gate.go); the steps that are not an
// end message are logged as Part{src}, the end message of batch k as Deliver{src,k,out}.
func (r *runner) RunGated(t *rt.Trace, c Cfg, parents [][]Msg, sched []Step) {
	if c.Edge != "batch" || !c.Streamed {
		rt.Fatalf("c12: gated runs need a streamed batch task")
	}
	r.run(t, c, parents, sched, true)
}

func (r *runner) run(t *rt.Trace, c Cfg, parents [][]Msg, sched []Step, gated bool) {
	r.seq++
	id := fmt.Sprintf("c12-%s-%d", r.name, r.seq)
	r.env.Diag.Clear()
	r.ts.reset()
	tt := kapacitor.StreamTask
	if c.Edge == "batch" {
		tt = kapacitor.BatchTask
	}
	var tg *taskGate
	if gated {
		tg = newTaskGate(id)
		defer tg.drop(id)
	}
	et, err := r.env.StartTask(id, c.script(), tt, rt.DefaultDBRP)
	if err != nil {
		rt.Fatalf("c12: start task %s: %v\n%s", c, err, c.script())
	}
	// groups in the trace are canonical GroupID strings of the real code
	gmap := rt.M{"x": groupString(c.tags(0, "x"))}
	onof := rt.M{"x": "x"}
	for _, p := range parents {
		for _, m := range p {
			gmap[m.G] = groupString(c.tags(0, m.G))
			if c.On {
				onof[m.G] = m.G[:1]
			} else {
				onof[m.G] = m.G
			}
		}
	}
	t.Reset(rt.M{"kind": c.Kind, "flow": c.Edge, "n": c.N, "fill": c.Fill, "tol": c.Tol, "on": c.On,
		"parents": encParents(parents), "gid": gmap, "onof": onof})

	var colls []kapacitor.BatchCollector
	if c.Edge == "batch" {
		raw := r.env.TM.BatchCollectors(id)
		if len(raw) != c.N {
			rt.Fatalf("c12: %d batch collectors for %d parents", len(raw), c.N)
		}
		// collector i feeds the i-th query node in the executing task's link order, which need not be
		// the script order: identify each by the measurement in its query text
		bqs, err := et.BatchQueries(r.tmap.T(0), r.tmap.T(0).Add(1500*time.Hour))
		if err != nil || len(bqs) != c.N {
			rt.Fatalf("c12: batch queries: %v (%d)", err, len(bqs))
		}
		colls = make([]kapacitor.BatchCollector, c.N)
		for i, bq := range bqs {
			if len(bq.Queries) == 0 {
				rt.Fatalf("c12: no query for batch node %d", i)
			}
			q := bq.Queries[0].String()
			found := -1
			for p := 0; p < c.N; p++ {
				if batchQueryRe[p].MatchString(q) {
					found = p
				}
			}
			if found < 0 || colls[found] != nil {
				rt.Fatalf("c12: cannot attribute batch query %q to a parent", q)
			}
			colls[found] = raw[i]
		}
	}
	node := ""
	seen := 0      // sink items already attributed
	delivered := 0 // messages handed to the node so far
	failed := false
	next := make([]int, c.N)
	closed := make([]bool, c.N)

	// drain collects the sink items produced so far: the node's "emitted" statistic
	// (sum of Collected() of its out edges) is exact once processing has returned.
	drain := func() []any {
		st, err := r.env.TM.ExecutionStats(id)
		if err != nil {
			rt.Fatalf("c12: stats: %v", err)
		}
		if node == "" {
			for name := range st.NodeStats {
				if strings.HasPrefix(name, c.Kind) {
					node = name
				}
			}
			if node == "" {
				rt.Fatalf("c12: no %s node in stats", c.Kind)
			}
		}
		em, _ := st.NodeStats[node]["emitted"].(int64)
		if !r.env.Diag.WaitCount("out", int(em), stepTimeout) {
			if r.nodeFailed() {
				failed = true
			} else {
				rt.Fatalf("c12: sink saw %d of %d emitted messages (%s)", r.env.Diag.Count("out"), em, c)
			}
		}
		items := r.env.Diag.SinkItems("out")
		out := []any{}
		for _, it := range items[seen:] {
			out = append(out, r.encOut(c, it))
		}
		seen = len(items)
		return out
	}

	feedBatch := func(src int, m Msg) {
		tags := models.Tags(c.tags(src, m.G))
		if m.P == nil {
			rt.Fatalf("c12: batch message without points")
		}
		begin := edge.NewBeginBatchMessage(parentNames[src], tags, false, r.tmap.T(m.T), len(m.P))
		pts := make([]edge.BatchPointMessage, len(m.P))
		for i, pk := range m.P {
			pts[i] = edge.NewBatchPointMessage(models.Fields{"v": int64(m.V*10 + i + 1)}, tags, r.tmap.T(pk))
		}
		if err := colls[src].CollectBatch(edge.NewBufferedBatchMessage(begin, pts, edge.NewEndBatchMessage())); err != nil {
			rt.Fatalf("c12: collect batch: %v", err)
		}
	}
	stepMu.RLock()
	if gated {
		failed = r.gatedSteps(t, c, id, tg, parents, sched, feedBatch, drain)
		sched = nil
	}
	for _, s := range sched {
		if failed {
			break
		}
		if s.SleepMs > 0 {
			time.Sleep(time.Duration(s.SleepMs) * time.Millisecond)
			r.ts.reset()
			delivered = 0
			t.Event("Sleep", rt.M{"ms": s.SleepMs, "out": drain()})
			continue
		}
		if s.Close {
			if c.Edge != "batch" {
				rt.Fatalf("c12: per-parent close needs a batch task")
			}
			if !closed[s.Src] {
				colls[s.Src].Close()
				closed[s.Src] = true
			}
			t.Event("Close", rt.M{"src": s.Src})
			continue
		}
		m := parents[s.Src][next[s.Src]]
		next[s.Src]++
		if c.Edge == "stream" {
			pt := rt.MustPoint(parentNames[s.Src], c.tags(s.Src, m.G), map[string]any{"v": int64(m.V)}, r.tmap.T(m.T))
			if err := r.env.Write("db", "rp", pt); err != nil {
				rt.Fatalf("c12: write: %v", err)
			}
		} else {
			feedBatch(s.Src, m)
		}
		delivered++
		res, ev := r.awaitProcessed(delivered, c, id, node, fmt.Sprintf("message %d of parent %d", next[s.Src], s.Src))
		switch res {
		case "abort":
			failed = true
		case "dropped":
			t.Event("Dropped", rt.M{"src": s.Src, "k": next[s.Src], "evidence": ev})
			droppedTraces.Add(1)
			failed = true
			continue
		}
		t.Event("Deliver", rt.M{"src": s.Src, "k": next[s.Src], "out": drain()})
	}
	stepMu.RUnlock()
	// end of input: close what is still open (schedule order first, then the rest) and stop
	if c.Edge == "batch" {
		for i, cl := range closed {
			if !cl {
				colls[i].Close()
			}
		}
	}
	if err := r.env.TM.StopTask(id); err != nil && !r.nodeFailed() {
		rt.Fatalf("c12: stop task: %v", err)
	}
	if r.nodeFailed() {
		failed = true
	}
	items := r.env.Diag.SinkItems("out")
	out := []any{}
	for _, it := range items[seen:] {
		out = append(out, r.encOut(c, it))
	}
	errs := []any{}
	for _, e := range r.env.Diag.Errors() {
		errs = append(errs, e.Ctx+": "+e.Msg+": "+e.Err)
	}
	t.Event("Finish", rt.M{"out": out, "failed": failed, "errors": errs})
}

// gatedSteps executes a message-granularity schedule on a gated streamed batch task.  Returns failed.
func (r *runner) gatedSteps(t *rt.Trace, c Cfg, id string, tg *taskGate, parents [][]Msg, sched []Step,
	feed func(int, Msg), drain func() []any) bool {
	fail := func(what string, res string) bool {
		if res == "timeout" {
			rt.Fatalf("c12: gated run: %s did not happen within %v (%s)", what, stepTimeout, c)
		}
		return res == "abort"
	}
	// message kinds per parent: 'b' begin, 'p' point, 'e' end
	kinds := make([][]byte, c.N)
	for s, p := range parents {
		for _, m := range p {
			kinds[s] = append(kinds[s], 'b')
			for range m.P {
				kinds[s] = append(kinds[s], 'p')
			}
			kinds[s] = append(kinds[s], 'e')
		}
	}
	// learn which parent node feeds which source: feed the first batch of one parent at a time and see
	// whose reader arrives at the gate (holding that batch's begin message)
	nodeOf := make([]string, c.N)
	known := map[string]int{}
	for s, p := range parents {
		if len(p) == 0 {
			continue
		}
		feed(s, p[0])
		var name string
		if fail("arrival of the first message of a parent", tg.waitFor(func() bool { name = tg.newArrival(known); return name != "" }, stepTimeout, r.nodeFailed)) {
			return true
		}
		known[name] = s
		nodeOf[s] = name
	}
	// everything else is queued in the parent edges right away; the gate decides what the readers see when
	for s, p := range parents {
		for _, m := range p[min(1, len(p)):] {
			feed(s, m)
		}
	}
	pos := make([]int, c.N)   // messages released per parent
	batch := make([]int, c.N) // batches completed per parent
	delivered := 0
	for _, st := range sched {
		s := st.Src
		if pos[s] >= len(kinds[s]) {
			rt.Fatalf("c12: gated schedule has too many steps for parent %d", s)
		}
		kind := kinds[s][pos[s]]
		pos[s]++
		want := pos[s]
		// the reader must be parked holding exactly this message
		var pg *parentGate
		if fail("reader parked at its next message", tg.waitFor(func() bool {
			pg = tg.parents[nodeOf[s]]
			return pg != nil && pg.arrivals >= want
		}, stepTimeout, r.nodeFailed)) {
			return true
		}
		tg.mu.Lock()
		pg.released = want
		tg.cond.Broadcast()
		tg.mu.Unlock()
		if kind == 'e' {
			// the reader hands the reassembled batch to the node: wait until the node has finished it
			delivered++
			batch[s]++
			res, ev := r.awaitProcessed(delivered, c, id, "", fmt.Sprintf("batch %d of parent %d", batch[s], s))
			switch res {
			case "abort":
				return true
			case "dropped":
				t.Event("Dropped", rt.M{"src": s, "k": batch[s], "evidence": ev})
				droppedTraces.Add(1)
				return true
			}
			t.Event("Deliver", rt.M{"src": s, "k": batch[s], "out": drain()})
		} else {
			// handled = the reader comes back for its next message (there always is one inside a batch)
			if fail("reader back for the following message", tg.waitFor(func() bool { return pg.arrivals > want }, stepTimeout, r.nodeFailed)) {
				return true
			}
			t.Event("Part", rt.M{"src": s, "out": drain()})
		}
	}
	for s := range kinds {
		if pos[s] != len(kinds[s]) {
			rt.Fatalf("c12: gated schedule leaves messages of parent %d behind", s)
		}
	}
	return false
}
