package c12

import (
	"strings"
	"sync"
	"time"

	"github.com/influxdata/kapacitor"
)

// Message-by-message control of the reader goroutines of a real join/union
// node.  The existing verif hook "edge.emit" (task, parent, child) fires in the
// goroutine that took a message off an edge, right after taking it and before
// handling it; for the in-edges of a join/union node that goroutine is the
// multiConsumer's readEdge of that parent.  A gated task parks every reader
// there until the driver releases it, so the begin/point/end sequences of
// different parents can be interleaved in any chosen order.  "Reader p arrived
// again" = it has handled the previous message completely.

type parentGate struct {
	arrivals int // messages taken off this parent's edge so far
	released int // of those, how many the driver has let through
}

type taskGate struct {
	mu      sync.Mutex
	cond    *sync.Cond
	parents map[string]*parentGate // by parent node name
}

var gates sync.Map // task id -> *taskGate

func installGateHook() {
	kapacitor.VerifHook = func(point string, args ...string) {
		if point != "edge.emit" || len(args) < 3 {
			return
		}
		g, ok := gates.Load(args[0])
		if !ok {
			return
		}
		if !strings.HasPrefix(args[2], "join") && !strings.HasPrefix(args[2], "union") {
			return
		}
		tg := g.(*taskGate)
		tg.mu.Lock()
		pg := tg.parents[args[1]]
		if pg == nil {
			pg = &parentGate{}
			tg.parents[args[1]] = pg
		}
		pg.arrivals++
		mine := pg.arrivals
		tg.cond.Broadcast()
		for pg.released < mine {
			tg.cond.Wait()
		}
		tg.mu.Unlock()
	}
}

func newTaskGate(id string) *taskGate {
	tg := &taskGate{parents: map[string]*parentGate{}}
	tg.cond = sync.NewCond(&tg.mu)
	gates.Store(id, tg)
	return tg
}

func (tg *taskGate) drop(id string) {
	gates.Delete(id)
	// let everything still parked go (end of trace / failure)
	tg.mu.Lock()
	for _, pg := range tg.parents {
		pg.released = 1 << 30
	}
	tg.cond.Broadcast()
	tg.mu.Unlock()
}

// waitFor polls pred under the gate lock until it holds; "timeout"/"abort" otherwise.
func (tg *taskGate) waitFor(pred func() bool, timeout time.Duration, abort func() bool) string {
	deadline := time.Now().Add(timeout)
	wake := time.AfterFunc(0, func() {})
	defer wake.Stop()
	for {
		tg.mu.Lock()
		ok := pred()
		tg.mu.Unlock()
		if ok {
			return "ok"
		}
		if abort != nil && abort() {
			return "abort"
		}
		if time.Now().After(deadline) {
			return "timeout"
		}
		// arrivals are signalled through cond; a short sleep keeps this simple and load tolerant
		time.Sleep(50 * time.Microsecond)
	}
}

// newArrival returns the name of a parent node, not in known, whose reader is parked.
func (tg *taskGate) newArrival(known map[string]int) string {
	for name, pg := range tg.parents {
		if _, ok := known[name]; !ok && pg.arrivals > 0 {
			return name
		}
	}
	return ""
}
