package c12

import (
	"runtime"
	"strings"
	"sync"
	"time"

	"github.com/influxdata/kapacitor/timer"
)

// procTS is a kapacitor TimingService (the exported TaskMaster.TimingService
// field).  Every node gets one Timer from it; JoinNode.doMessage and
// UnionNode.Point/BufferedBatch/Barrier bracket the complete handling of ONE
// parent message with timer.Start() ... defer timer.Stop(), in the goroutine
// of multiConsumer.Consume.  Stop() therefore runs after every state change
// and every Forward of that message and before the consumer can take the next
// message: an exact, hook-free "multi.processed" signal (DESIGN.md planned a
// repository hook for this; it is not needed).
//
// A Timer decides on its first Start() whether it belongs to a join/union
// node by looking at the calling function's name.
type procTS struct {
	mu  sync.Mutex
	sig chan struct{}
	// processed counts completed join/union receiver calls since reset.
	processed int
}

func newProcTS() *procTS {
	return &procTS{sig: make(chan struct{}, 1)}
}

func (p *procTS) NewTimer(timer.Setter) timer.Timer { return &procTimer{ts: p} }

func (p *procTS) reset() {
	p.mu.Lock()
	p.processed = 0
	p.mu.Unlock()
}

func (p *procTS) count() int {
	p.mu.Lock()
	defer p.mu.Unlock()
	return p.processed
}

// wait blocks until processed >= n, abort() returns true, or the deadline passes.
// Returns "ok", "abort" or "timeout".
func (p *procTS) wait(n int, timeout time.Duration, abort func() bool) string {
	deadline := time.Now().Add(timeout)
	for {
		if p.count() >= n {
			return "ok"
		}
		select {
		case <-p.sig:
		case <-time.After(2 * time.Millisecond):
			if abort != nil && abort() {
				return "abort"
			}
			if time.Now().After(deadline) {
				return "timeout"
			}
		}
	}
}

type procTimer struct {
	ts      *procTS
	decided bool
	multi   bool
}

func (t *procTimer) Start() {
	if !t.decided {
		t.decided = true
		pc := make([]uintptr, 4)
		n := runtime.Callers(2, pc)
		fr := runtime.CallersFrames(pc[:n])
		for {
			f, more := fr.Next()
			if strings.Contains(f.Function, "(*JoinNode).") || strings.Contains(f.Function, "(*UnionNode).") {
				t.multi = true
				break
			}
			if !more {
				break
			}
		}
	}
}
func (t *procTimer) Pause()  {}
func (t *procTimer) Resume() {}
func (t *procTimer) Stop() {
	if t.multi {
		t.ts.mu.Lock()
		t.ts.processed++
		t.ts.mu.Unlock()
		select {
		case t.ts.sig <- struct{}{}:
		default:
		}
	}
}
