package c12

import (
	"fmt"
	"sync"
	"time"

	"github.com/influxdata/kapacitor/edge"
	"github.com/influxdata/kapacitor/models"
	"github.com/influxdata/kapacitor/pipeline"

	"kapverif/rt"
)

// RunMC drives the exported edge.NewMultiConsumer at MESSAGE granularity:
// batch parents send their batches as unbuffered begin/point/end sequences
// (what where/eval/shift nodes forward) and the sequences of different
// parents are interleaved message by message in every possible order.  The
// reader goroutines of the real multiConsumer reassemble the batches; a
// recording MultiReceiver (the place of the join/union node) logs what it is
// handed.  Validated against MultiConsumer.tla by MultiConsumerTrace.

// mcSched fixes the order in which the parent edges hand out their messages: the
// edge of step k+1 gets its turn once the edge of step k is asked for its following
// message, i.e. once its reader has handled the previous one completely (for an end
// message that includes the rendezvous with the consumer loop).
type mcSched struct {
	mu    sync.Mutex
	cond  *sync.Cond
	order []int
	step  int
}

type mcEdge struct {
	id    int
	s     *mcSched
	msgs  []edge.Message
	taken bool
}

func (e *mcEdge) Emit() (edge.Message, bool) {
	s := e.s
	s.mu.Lock()
	defer s.mu.Unlock()
	if e.taken {
		e.taken = false
		s.step++
		s.cond.Broadcast()
	}
	if len(e.msgs) == 0 {
		return nil, false
	}
	for s.step < len(s.order) && s.order[s.step] != e.id {
		s.cond.Wait()
	}
	m := e.msgs[0]
	e.msgs = e.msgs[1:]
	e.taken = true
	return m, true
}
func (e *mcEdge) Collect(edge.Message) error { return nil }
func (e *mcEdge) Close() error               { return nil }
func (e *mcEdge) Abort()                     {}
func (e *mcEdge) Type() pipeline.EdgeType    { return pipeline.BatchEdge }

type mcRecv struct {
	tm       rt.TimeMap
	got      []any
	finishes int
}

func (r *mcRecv) BufferedBatch(src int, b edge.BufferedBatchMessage) error {
	k, ok := r.tm.KOK(b.Time())
	if !ok {
		k = -1
	}
	pts := make([]any, 0, len(b.Points()))
	for _, p := range b.Points() {
		pk, ok := r.tm.KOK(p.Time())
		if !ok {
			pk = -1
		}
		pts = append(pts, rt.M{"t": pk, "v": vfield(p.Fields(), "v")})
	}
	r.got = append(r.got, rt.M{"src": src, "name": b.Name(), "t": k, "g": b.Tags()["g"], "pts": pts})
	return nil
}
func (r *mcRecv) Point(src int, p edge.PointMessage) error {
	r.got = append(r.got, rt.M{"src": src, "name": "unexpected-point", "t": -1, "g": "", "pts": []any{}})
	return nil
}
func (r *mcRecv) Barrier(src int, b edge.BarrierMessage) error    { return nil }
func (r *mcRecv) Delete(src int, d edge.DeleteGroupMessage) error { return nil }
func (r *mcRecv) Finish() error                                   { r.finishes++; return nil }

// mcBatch: a batch as in MultiConsumerMC!Mk: name = parent letter, tmax = j, group x,
// n points at time j with ids 100*(src+1) + 10*j + i.
type mcBatch struct {
	Name string
	T    int
	Pts  []int // ids
}

func mcParent(src int, shape []int) []mcBatch {
	var bs []mcBatch
	for j, n := range shape {
		b := mcBatch{Name: parentNames[src], T: j + 1}
		for i := 1; i <= n; i++ {
			b.Pts = append(b.Pts, 100*(src+1)+10*(j+1)+i)
		}
		bs = append(bs, b)
	}
	return bs
}

func RunMC(r *rt.Run) error {
	t := r.NewTrace("mc")
	tm := rt.DefaultTime
	shapes2 := [][]int{{1}, {2}, {0, 1}, {}}
	shapes3 := [][]int{{1}, {0}, {}}
	if r.Thorough() {
		shapes2 = [][]int{{1}, {2}, {0, 1}, {1, 1}, {2, 1}, {}}
		shapes3 = [][]int{{1}, {0}, {2}, {}}
	}
	runOne := func(ps [][]mcBatch, order []Step) {
		tags := models.Tags{"g": "x"}
		ins := make([]edge.Edge, len(ps))
		s := &mcSched{}
		s.cond = sync.NewCond(&s.mu)
		for _, st := range order {
			s.order = append(s.order, st.Src)
		}
		encP := make([]any, len(ps))
		for i, bs := range ps {
			var msgs []edge.Message
			eb := make([]any, len(bs))
			for j, b := range bs {
				msgs = append(msgs, edge.NewBeginBatchMessage(b.Name, tags, false, tm.T(b.T), len(b.Pts)))
				ep := make([]any, len(b.Pts))
				for k, v := range b.Pts {
					msgs = append(msgs, edge.NewBatchPointMessage(models.Fields{"v": int64(v)}, tags, tm.T(b.T)))
					ep[k] = rt.M{"t": b.T, "v": v}
				}
				msgs = append(msgs, edge.NewEndBatchMessage())
				eb[j] = rt.M{"name": b.Name, "t": b.T, "g": "x", "pts": ep}
			}
			ins[i] = &mcEdge{id: i, s: s, msgs: msgs}
			encP[i] = eb
		}
		rec := &mcRecv{tm: tm}
		done := make(chan error, 1)
		go func() { done <- edge.NewMultiConsumer(ins, rec).Consume() }()
		errs := ""
		select {
		case err := <-done:
			if err != nil {
				errs = err.Error()
			}
		case <-time.After(60 * time.Second):
			rt.Fatalf("c12mc: multi consumer did not finish within 60s")
		}
		t.Reset(rt.M{"parents": encP})
		for _, st := range order {
			t.Event("Take", rt.M{"src": st.Src})
		}
		if rec.got == nil {
			rec.got = []any{}
		}
		t.Event("Finish", rt.M{"recv": rec.got, "finishes": rec.finishes, "err": errs})
	}
	msgLens := func(ps [][]mcBatch) []int {
		l := make([]int, len(ps))
		for i, bs := range ps {
			for _, b := range bs {
				l[i] += 2 + len(b.Pts)
			}
		}
		return l
	}
	n := 0
	all := func(shapes [][]int, np int) {
		cartesian(np, len(shapes), func(pick []int) {
			ps := make([][]mcBatch, np)
			for s := range ps {
				ps[s] = mcParent(s, shapes[pick[s]])
			}
			total := 0
			for _, x := range msgLens(ps) {
				total += x
			}
			if np == 3 && total > 10 {
				return // > 4200 orders each: left to the model
			}
			for _, order := range interleavings(msgLens(ps)) {
				runOne(ps, order)
				n++
				if len(order) >= 6 {
					t.Distinct(fmt.Sprint(pick, schedKey(order)))
				}
			}
		})
	}
	all(shapes2, 2)
	all(shapes3, 3)
	r.Extra["mc_schedules"] = n
	r.Finish("the exported edge.NewMultiConsumer with 2-3 scheduled batch parents sending unbuffered begin/point/end sequences, every message-by-message interleaving of every combination of batch shapes up to the bound; the receiver's BufferedBatch(src, batch) calls and Finish recorded; non-trivial = >= 6 messages", true)
	return nil
}
