package c12

import (
	"fmt"
	"runtime"
	"strings"
	"sync"
	"sync/atomic"
	"time"

	"kapverif/rt"
)

// A delivered message the join/union node never finishes is either still in
// flight (slow machine: keep waiting, a miss of the long deadline is a harness
// error) or was CONSUMED AND DROPPED between the parent edge and the receiver
// (e.g. a reader that does not hand an empty batch on).  The second is a
// judged outcome: the driver records a Dropped line - which no action of the
// trace specification accepts, a message takes its parent's slot whatever it
// holds (JURef) - once it has structural evidence, taken with every other
// worker of this process paused between two steps:
//   - the node's "collected" statistic (sum of Emitted of its parent edges) has
//     counted every message delivered so far: the message was taken off its edge;
//   - every multiConsumer.Consume goroutine of the process is parked in its
//     select and every readEdge goroutine is parked inside Emit: nobody holds a
//     message, nobody is handling one;
//   - the node's timer still has not stopped for that message.

// stepMu: workers hold it shared while they execute a step; the evidence is
// taken with it held exclusively (all other tasks are then quiescent).
var stepMu sync.RWMutex

// droppedTraces counts traces that ended with a Dropped line (the run is cut
// short after a few: the verdict is settled, each one costs the short bound).
var droppedTraces atomic.Int64

const (
	quickBound   = 2 * time.Second
	maxDropTrace = 6
)

type goroutineCensus struct {
	consumers, consumersIdle int
	readers, readersInEmit   int
}

func takeCensus() goroutineCensus {
	buf := make([]byte, 1<<20)
	for {
		n := runtime.Stack(buf, true)
		if n < len(buf) {
			buf = buf[:n]
			break
		}
		buf = make([]byte, 2*len(buf))
	}
	var c goroutineCensus
	for _, g := range strings.Split(string(buf), "\n\n") {
		lines := strings.Split(g, "\n")
		if len(lines) < 2 {
			continue
		}
		head, top := lines[0], lines[1]
		switch {
		case strings.Contains(g, "(*multiConsumer).readEdge"):
			c.readers++
			if strings.Contains(g, ".Emit(") {
				c.readersInEmit++
			}
		case strings.Contains(g, "(*multiConsumer).Consume(") && !strings.Contains(g, "(*multiConsumer).Consume.func"):
			c.consumers++
			if strings.Contains(head, "[select") && strings.Contains(top, "(*multiConsumer).Consume(") {
				c.consumersIdle++
			}
		}
	}
	return c
}

// awaitProcessed waits until the node has finished `delivered` messages.  The caller holds stepMu.RLock.
// Returns "ok", "abort" (node failed) or "dropped" (evidence in ev); a miss of the long deadline is fatal.
func (r *runner) awaitProcessed(delivered int, c Cfg, id, node string, what string) (res string, ev rt.M) {
	res = r.ts.wait(delivered, quickBound, r.nodeFailed)
	if res != "timeout" {
		return res, nil
	}
	deadline := time.Now().Add(stepTimeout)
	for time.Now().Before(deadline) {
		if r.ts.count() >= delivered {
			return "ok", nil
		}
		if r.nodeFailed() {
			return "abort", nil
		}
		collected := int64(-1)
		if st, err := r.env.TM.ExecutionStats(id); err == nil {
			for name, ns := range st.NodeStats {
				if node != "" && name == node || node == "" && strings.HasPrefix(name, c.Kind) {
					collected, _ = ns["collected"].(int64)
				}
			}
		}
		if collected >= int64(delivered) {
			stepMu.RUnlock()
			stepMu.Lock()
			cs := takeCensus()
			processed := r.ts.count()
			stepMu.Unlock()
			stepMu.RLock()
			if processed < delivered && cs.consumers > 0 && cs.consumers == cs.consumersIdle && cs.readers == cs.readersInEmit {
				return "dropped", rt.M{
					"taken_off_parent_edges": collected, "delivered": delivered, "processed_by_node": processed,
					"consume_goroutines": cs.consumers, "consume_parked_in_select": cs.consumersIdle,
					"reader_goroutines": cs.readers, "readers_parked_in_emit": cs.readersInEmit,
					"what": fmt.Sprintf("%s: taken off its edge, never handed to the %s node, nothing in flight", what, c.Kind),
				}
			}
		}
		time.Sleep(200 * time.Millisecond)
	}
	rt.Fatalf("c12: %s node did not finish %s within %v and the message is still in flight (%s)", c.Kind, what, stepTimeout, c)
	return "", nil
}
