package c12

import (
	"fmt"
	"math/rand"
	"sync"

	"kapverif/rt"
)

func init() {
	rt.Register("c12", Run)
	rt.Register("c12cq", RunCQ)
	rt.Register("c12mc", RunMC)
	rt.Register("c12probe", RunProbe)
}

// scenario = configuration + parent sequences + forced arrival order.
type scenario struct {
	c       Cfg
	parents [][]Msg
	sched   []Step
	key     string
	barrier bool // wall-clock driven barrier nodes upstream: own trace file, verdict level only
	gated   bool // streamed batch parents, schedule at message granularity (gate.go)
}

// nonDecSeqs: every non-decreasing sequence of length n over 1..tmax.
func nonDecSeqs(tmax, n int) [][]int {
	var out [][]int
	var rec func(cur []int, lo int)
	rec = func(cur []int, lo int) {
		if len(cur) == n {
			out = append(out, append([]int(nil), cur...))
			return
		}
		for t := lo; t <= tmax; t++ {
			rec(append(cur, t), t)
		}
	}
	rec(nil, 1)
	return out
}

// timeSeqs: all time-ordered sequences of length <= maxLen over 1..tmax (duplicates, gaps, empty).
func timeSeqs(tmax, maxLen int) [][]int {
	var out [][]int
	for n := 0; n <= maxLen; n++ {
		out = append(out, nonDecSeqs(tmax, n)...)
	}
	return out
}

// mkParent: ids are 10*(src+1)+position, as in JURef!MkParent.
func mkParent(src int, ts []int, g func(i int) string) []Msg {
	p := make([]Msg, len(ts))
	for i, t := range ts {
		p[i] = Msg{T: t, G: g(i), V: 10*(src+1) + i + 1}
	}
	return p
}

// interleavings of parents with the given lengths: every order of deliveries.
func interleavings(lens []int) [][]Step {
	var out [][]Step
	left := append([]int(nil), lens...)
	var rec func(cur []Step)
	rec = func(cur []Step) {
		done := true
		for s := range left {
			if left[s] > 0 {
				done = false
				left[s]--
				rec(append(cur, Step{Src: s}))
				left[s]++
			}
		}
		if done {
			out = append(out, append([]Step(nil), cur...))
		}
	}
	rec(nil)
	return out
}

func randomSchedule(rnd *rand.Rand, lens []int) []Step {
	left := append([]int(nil), lens...)
	total := 0
	for _, n := range left {
		total += n
	}
	var out []Step
	for total > 0 {
		k := rnd.Intn(total)
		for s := range left {
			if k < left[s] {
				out = append(out, Step{Src: s})
				left[s]--
				total--
				break
			}
			k -= left[s]
		}
	}
	return out
}

// blockSchedule delivers whole parents one after the other in the given order
// (a parent that runs far ahead / lags behind).
func blockSchedule(order []int, lens []int) []Step {
	var out []Step
	for _, s := range order {
		for k := 0; k < lens[s]; k++ {
			out = append(out, Step{Src: s})
		}
	}
	return out
}

func lensOf(ps [][]Msg) []int {
	l := make([]int, len(ps))
	for i, p := range ps {
		l[i] = len(p)
	}
	return l
}

func cartesian(n int, choices int, f func(pick []int)) {
	pick := make([]int, n)
	var rec func(i int)
	rec = func(i int) {
		if i == n {
			f(pick)
			return
		}
		for c := 0; c < choices; c++ {
			pick[i] = c
			rec(i + 1)
		}
	}
	rec(0)
}

func schedKey(s []Step) string {
	b := make([]byte, 0, len(s))
	for _, st := range s {
		if st.Close {
			b = append(b, byte('A'+st.Src))
		} else {
			b = append(b, byte('a'+st.Src))
		}
	}
	return string(b)
}

func inputKey(ps [][]Msg) string {
	k := ""
	for _, p := range ps {
		k += "|"
		for _, m := range p {
			k += fmt.Sprintf("%d%s", m.T, m.G)
			for _, x := range m.P {
				k += fmt.Sprintf(".%d", x)
			}
			k += ","
		}
	}
	return k
}

// withBatchPoints gives every message of a batch scenario its points: 1-2 point
// times at or below tmax (seeded), so that pairing inside the joined batch is exercised.
func withBatchPoints(rnd *rand.Rand, ps [][]Msg) [][]Msg {
	out := make([][]Msg, len(ps))
	for s, p := range ps {
		out[s] = make([]Msg, len(p))
		for i, m := range p {
			switch rnd.Intn(4) {
			case 0:
				m.P = []int{m.T}
			case 1:
				m.P = []int{m.T, m.T}
			case 2:
				m.P = []int{maxInt(1, m.T-1), m.T}
			default:
				m.P = []int{maxInt(1, m.T-1)}
			}
			out[s][i] = m
		}
	}
	return out
}

func maxInt(a, b int) int {
	if a > b {
		return a
	}
	return b
}

// withCloses inserts a per-parent Close after a parent's last message at a random
// later position of the schedule (batch tasks only).
func withCloses(rnd *rand.Rand, sched []Step, n int) []Step {
	out := append([]Step(nil), sched...)
	for s := 0; s < n; s++ {
		if rnd.Intn(2) == 0 {
			continue
		}
		last := -1
		for i, st := range out {
			if !st.Close && st.Src == s {
				last = i
			}
		}
		pos := last + 1 + rnd.Intn(len(out)-last)
		out = append(out[:pos], append([]Step{{Src: s, Close: true}}, out[pos:]...)...)
	}
	return out
}

var fills = []string{"none", "null", "num"}
var tols = []int{0, 2}

func single(g string) func(int) string { return func(int) string { return g } }

// build enumerates the scenarios of a tier (DESIGN.md C12: quick = all
// interleavings of 2x2 messages over a grid of settings; thorough = 2x3 and 3x2,
// sampled schedules for 3 parents, lagging/silent parents, long random runs).
func build(r *rt.Run) (scs []scenario, exhaustive bool, extra map[string]any) {
	rnd := r.Rand
	extra = map[string]any{}
	add := func(c Cfg, ps [][]Msg, sched []Step) {
		scs = append(scs, scenario{c: c, parents: ps, sched: sched, key: c.String() + inputKey(ps) + "/" + schedKey(sched)})
	}
	// all inputs (<= maxLen messages per parent over times 1..3) x all interleavings
	allFor := func(c Cfg, maxLen int, sample int) {
		seqs := timeSeqs(3, maxLen)
		cartesian(c.N, len(seqs), func(pick []int) {
			ps := make([][]Msg, c.N)
			for s := range ps {
				ps[s] = mkParent(s, seqs[pick[s]], single("x"))
			}
			if c.Edge == "batch" {
				ps = withBatchPoints(rnd, ps)
			}
			lens := lensOf(ps)
			if sample == 0 {
				for _, sc := range interleavings(lens) {
					if c.Edge == "batch" {
						sc = withCloses(rnd, sc, c.N)
					}
					add(c, ps, sc)
				}
				return
			}
			// sampled: every whole-parent order (one parent far ahead / lagging) + random schedules
			seen := map[string]bool{}
			put := func(sc []Step) {
				if k := schedKey(sc); !seen[k] {
					seen[k] = true
					if c.Edge == "batch" {
						sc = withCloses(rnd, sc, c.N)
					}
					add(c, ps, sc)
				}
			}
			perms := [][]int{{0, 1, 2}, {0, 2, 1}, {1, 0, 2}, {1, 2, 0}, {2, 0, 1}, {2, 1, 0}}
			if c.N == 2 {
				perms = [][]int{{0, 1}, {1, 0}}
			}
			for _, p := range perms {
				put(blockSchedule(p, lens))
			}
			for i := 0; i < sample; i++ {
				put(randomSchedule(rnd, lens))
			}
		})
	}
	joinCfgs := func(edge string, n int) []Cfg {
		var cs []Cfg
		for _, f := range fills {
			for _, tl := range tols {
				cs = append(cs, Cfg{Kind: "join", Edge: edge, N: n, Fill: f, Tol: tl})
			}
		}
		return cs
	}
	union := func(edge string, n int) Cfg { return Cfg{Kind: "union", Edge: edge, N: n, Fill: "none"} }

	// two groups: group demultiplexing must keep the pairings apart
	twoGroups := func(c Cfg, maxLen int, count int) {
		seqs := timeSeqs(3, maxLen)
		gs := []string{"x", "y"}
		for i := 0; i < count; i++ {
			ps := make([][]Msg, c.N)
			for s := range ps {
				ps[s] = mkParent(s, seqs[rnd.Intn(len(seqs))], func(int) string { return gs[rnd.Intn(2)] })
			}
			if c.Edge == "batch" {
				ps = withBatchPoints(rnd, ps)
			}
			for _, sc := range interleavings(lensOf(ps)) {
				add(c, ps, sc)
			}
		}
	}
	// long random runs beyond the exhaustive bound: times 1..6, 4-7 messages per parent
	long := func(c Cfg, count int) {
		for i := 0; i < count; i++ {
			ps := make([][]Msg, c.N)
			for s := range ps {
				n := 4 + rnd.Intn(4)
				if rnd.Intn(8) == 0 {
					n = 0 // silent parent
				}
				ts := make([]int, n)
				t := 1
				for k := range ts {
					t += []int{0, 0, 1, 1, 2}[rnd.Intn(5)]
					if t > 6 {
						t = 6
					}
					ts[k] = t
				}
				gs := []string{"x", "x", "y"}
				ps[s] = mkParent(s, ts, func(int) string { return gs[rnd.Intn(3)] })
			}
			if c.Edge == "batch" {
				ps = withBatchPoints(rnd, ps)
			}
			lens := lensOf(ps)
			add(c, ps, randomSchedule(rnd, lens))
			order := rnd.Perm(c.N)
			add(c, ps, blockSchedule(order, lens))
		}
	}

	// join.on('b'): parent a grouped by b (groups x, y), parent b by b,f (x1, x2, y1); the documented
	// shape (one less specific parent) with at most one message per (parent, group, rounded time).
	// every = 1: all inputs; otherwise a seeded 1-in-every sample of the inputs; always all interleavings.
	onFor := func(c Cfg, maxLen int, every int) {
		c.On = true
		tseqs := timeSeqs(3, maxLen)
		gsets := [][]string{{"x", "y"}, {"x1", "x2", "y1"}}
		var cands [2][][]Msg
		for s := 0; s < 2; s++ {
			for _, ts := range tseqs {
				n := len(ts)
				cartesian(n, len(gsets[s]), func(pick []int) {
					p := mkParent(s, ts, func(i int) string { return gsets[s][pick[i]] })
					seen := map[string]bool{}
					for _, m := range p {
						rt := m.T
						if c.Tol > 0 {
							rt = (2*m.T + c.Tol) / (2 * c.Tol) * c.Tol
						}
						k := fmt.Sprintf("%s@%d", m.G, rt)
						if seen[k] {
							return
						}
						seen[k] = true
					}
					cands[s] = append(cands[s], p)
				})
			}
		}
		for _, a := range cands[0] {
			for _, b := range cands[1] {
				if every > 1 && rnd.Intn(every) != 0 {
					continue
				}
				ps := [][]Msg{a, b}
				for _, sc := range interleavings(lensOf(ps)) {
					add(c, ps, sc)
				}
			}
		}
	}
	onLong := func(c Cfg, count int) {
		c.On = true
		for i := 0; i < count; i++ {
			ps := make([][]Msg, 2)
			gsets := [][]string{{"x", "y"}, {"x1", "x2", "y1"}}
			for s := range ps {
				var p []Msg
				v := 0
				for t := 1; t <= 6; t++ {
					if c.Tol > 0 && t%2 == 0 {
						continue // odd times only: their rounded values 2, 4, 6 stay distinct
					}
					for _, g := range gsets[s] {
						if rnd.Intn(3) != 0 {
							v++
							p = append(p, Msg{T: t, G: g, V: 100*(s+1) + v})
						}
					}
				}
				if rnd.Intn(10) == 0 {
					p = nil
				}
				ps[s] = p
			}
			lens := lensOf(ps)
			add(c, ps, randomSchedule(rnd, lens))
			add(c, ps, blockSchedule(rnd.Perm(2), lens))
		}
	}

	// barriers (join only): each parent sits behind barrier().idle(100ms); the driver pauses at random
	// positions so that idle barriers reach the join between deliveries.  Times are 1000 units apart and
	// strictly increasing per parent, so every barrier (last time + k*100ms) is truthful whatever the
	// pause really took.  Checked at verdict level only: no node failure, outputs = reference.
	barrierRuns := func(c Cfg, count int) {
		c.Barrier = true
		for i := 0; i < count; i++ {
			ps := make([][]Msg, c.N)
			for s := range ps {
				n := 1 + rnd.Intn(3)
				ts := make([]int, n)
				t := 0
				for k := range ts {
					t += 1 + rnd.Intn(2)
					ts[k] = t * 1000
				}
				ps[s] = mkParent(s, ts, single("x"))
			}
			sched := randomSchedule(rnd, lensOf(ps))
			var out []Step
			for _, st := range sched {
				out = append(out, st)
				if rnd.Intn(3) == 0 {
					out = append(out, Step{SleepMs: 250})
				}
			}
			out = append(out, Step{SleepMs: 250})
			scs = append(scs, scenario{c: c, parents: ps, sched: out, key: c.String() + inputKey(ps) + "/" + schedKey(sched) + fmt.Sprint(i), barrier: true})
		}
	}

	// streamed batch parents (query|where forwards begin/point/end individually): the readers of the real
	// multiConsumer reassemble the batches; with the gate the sequences of different parents are interleaved
	// MESSAGE BY MESSAGE in every order (shapes: tmax and point times per batch).
	gatedFor := func(c Cfg, shapes [][][]Msg) {
		c.Edge, c.Streamed = "batch", true
		for _, ps := range shapes {
			lens := make([]int, len(ps))
			for s, p := range ps {
				for _, m := range p {
					lens[s] += 2 + len(m.P)
				}
			}
			for _, sc := range interleavings(lens) {
				scs = append(scs, scenario{c: c, parents: ps, sched: sc, gated: true,
					key: c.String() + inputKey(ps) + "/gated/" + schedKey(sc)})
			}
		}
	}
	bm := func(src, k, t int, pts ...int) Msg { return Msg{T: t, G: "x", V: 10*(src+1) + k, P: pts} }
	gshapes2 := [][][]Msg{
		{{bm(0, 1, 1, 1)}, {bm(1, 1, 1, 1, 1)}},                  // 3 + 4 messages: 35 orders
		{{bm(0, 1, 1, 1), bm(0, 2, 2, 2)}, {bm(1, 1, 2, 1, 2)}}, // 6 + 4 messages: 210 orders
	}

	// point-time patterns INSIDE one joined batch set (joinset.JoinIntoBatch: cursors, skipped parents, the
	// "backup" rewind): three batch parents, one batch each with the same tmax, every assignment of a
	// time-ordered sequence of minLen..maxLen point times over 1..3 per parent (a parent later than the
	// others, a later parent earlier than an earlier one, duplicates, empty batches).
	batchSetFor := func(c Cfg, minLen, maxLen int) {
		c.Edge, c.N = "batch", 3
		var seqs [][]int
		for n := minLen; n <= maxLen; n++ {
			seqs = append(seqs, nonDecSeqs(3, n)...)
		}
		k := 0
		cartesian(3, len(seqs), func(pick []int) {
			ps := make([][]Msg, 3)
			for s := range ps {
				ps[s] = []Msg{{T: 3, G: "x", V: 10*(s+1) + 1, P: append([]int{}, seqs[pick[s]]...)}}
			}
			order := [][]int{{0, 1, 2}, {2, 1, 0}, {1, 2, 0}}[k%3]
			k++
			add(c, ps, blockSchedule(order, lensOf(ps)))
		})
	}

	// EMPTY batches (begin/end without points - what an upstream where that drops everything, or an empty
	// window, sends) next to the silent-parent cases: two batch parents with 1-2 batches each (tmax 1, or 1 then 2),
	// every batch either empty or holding one point at its tmax, every combination with at least one empty
	// batch (leading parent, other parent, both; first batch, later batch) x every interleaving.
	emptyBatchFor := func(c Cfg) {
		c.Edge, c.N = "batch", 2
		var cands [2][][]Msg
		for s := 0; s < 2; s++ {
			for _, ts := range [][]int{{1}, {1, 2}} {
				cartesian(len(ts), 2, func(pick []int) {
					p := mkParent(s, ts, single("x"))
					for i := range p {
						p[i].P = []int{}
						if pick[i] == 1 {
							p[i].P = []int{p[i].T}
						}
					}
					cands[s] = append(cands[s], p)
				})
			}
			cands[s] = append(cands[s], []Msg{}) // silent parent
		}
		hasEmpty := func(p []Msg) bool {
			for _, m := range p {
				if len(m.P) == 0 {
					return true
				}
			}
			return false
		}
		for _, a := range cands[0] {
			for _, b := range cands[1] {
				if !hasEmpty(a) && !hasEmpty(b) {
					continue
				}
				ps := [][]Msg{a, b}
				for _, sc := range interleavings(lensOf(ps)) {
					add(c, ps, sc)
				}
			}
		}
	}

	if !r.Thorough() {
		for _, f := range fills {
			emptyBatchFor(Cfg{Kind: "join", Fill: f, Tol: 0})
		}
		emptyBatchFor(Cfg{Kind: "join", Fill: "num", Tol: 0, Streamed: true})
		batchSetFor(Cfg{Kind: "join", Fill: "num", Tol: 0}, 0, 1)
		batchSetFor(Cfg{Kind: "join", Fill: "null", Tol: 0}, 0, 1)
		batchSetFor(Cfg{Kind: "join", Fill: "none", Tol: 0}, 0, 1)
		batchSetFor(Cfg{Kind: "join", Fill: "null", Tol: 0}, 1, 2)
		batchSetFor(Cfg{Kind: "join", Fill: "none", Tol: 0}, 1, 2)
		gatedFor(Cfg{Kind: "join", N: 2, Fill: "null", Tol: 0}, gshapes2)
		gatedFor(Cfg{Kind: "union", N: 2, Fill: "none"}, gshapes2[:1])
		allFor(Cfg{Kind: "join", Edge: "batch", N: 2, Fill: "none", Tol: 2, Streamed: true}, 2, 1)
		barrierRuns(Cfg{Kind: "join", Edge: "stream", N: 2, Fill: "null", Tol: 0}, 8)
		barrierRuns(Cfg{Kind: "join", Edge: "stream", N: 2, Fill: "none", Tol: 0}, 8)
		for _, c := range joinCfgs("stream", 2) {
			allFor(c, 2, 0)
			onFor(c, 2, 16)
		}
		onLong(Cfg{Kind: "join", Edge: "stream", N: 2, Fill: "null", Tol: 0}, 20)
		onLong(Cfg{Kind: "join", Edge: "stream", N: 2, Fill: "none", Tol: 2}, 20)
		allFor(union("stream", 2), 2, 0)
		allFor(union("stream", 3), 1, 0)
		for _, c := range joinCfgs("stream", 3) {
			if c.Tol == 0 {
				allFor(c, 1, 0)
			}
		}
		// batch edges: same node code through BufferedBatch + JoinIntoBatch, with per-parent closes
		allFor(Cfg{Kind: "join", Edge: "batch", N: 2, Fill: "none", Tol: 0}, 2, 1)
		allFor(Cfg{Kind: "join", Edge: "batch", N: 2, Fill: "null", Tol: 2}, 2, 1)
		allFor(union("batch", 2), 2, 1)
		twoGroups(Cfg{Kind: "join", Edge: "stream", N: 2, Fill: "null", Tol: 0}, 2, 20)
		twoGroups(Cfg{Kind: "join", Edge: "stream", N: 2, Fill: "none", Tol: 2}, 2, 20)
		for _, c := range []Cfg{{Kind: "join", Edge: "stream", N: 2, Fill: "num", Tol: 2}, {Kind: "join", Edge: "stream", N: 3, Fill: "null", Tol: 0}, union("stream", 3)} {
			long(c, 20)
		}
		extra["bounds"] = "2 parents x <=2 messages (times 1..3, duplicates, gaps, silent parent) x all interleavings for fill x tolerance; 3 parents x <=1; batch sampled"
		return scs, false, extra // join.on and batch inputs are sampled in this tier
	}
	for _, c := range joinCfgs("batch", 2) {
		emptyBatchFor(c)
		c.Streamed = true
		emptyBatchFor(c)
	}
	for _, c := range joinCfgs("batch", 3) {
		if c.Tol == 0 && c.Fill != "num" {
			batchSetFor(c, 0, 3)
		} else {
			batchSetFor(c, 0, 2)
		}
	}
	gshapes3 := [][][]Msg{{{bm(0, 1, 1, 1)}, {bm(1, 1, 1, 1)}, {bm(2, 1, 2, 1, 2)}}} // 3 + 3 + 4 messages: 4200 orders
	for _, c := range []Cfg{{Kind: "join", N: 2, Fill: "null", Tol: 0}, {Kind: "join", N: 2, Fill: "none", Tol: 2}, {Kind: "union", N: 2, Fill: "none"}} {
		gatedFor(c, gshapes2)
	}
	gatedFor(Cfg{Kind: "join", N: 3, Fill: "null", Tol: 0}, gshapes3)
	gatedFor(Cfg{Kind: "union", N: 3, Fill: "none"}, gshapes3)
	for _, c := range joinCfgs("batch", 2) {
		c.Streamed = true
		allFor(c, 2, 2)
	}
	allFor(Cfg{Kind: "union", Edge: "batch", N: 2, Fill: "none", Streamed: true}, 2, 2)
	for _, c := range joinCfgs("stream", 2) {
		if c.Tol == 0 {
			barrierRuns(c, 24)
		}
	}
	barrierRuns(Cfg{Kind: "join", Edge: "stream", N: 3, Fill: "null", Tol: 0}, 24)
	for _, c := range joinCfgs("stream", 2) {
		allFor(c, 3, 0)
		if c.Fill == "num" {
			onFor(c, 2, 4)
		} else {
			onFor(c, 2, 1)
		}
		onLong(c, 60)
	}
	allFor(union("stream", 2), 3, 0)
	for _, c := range joinCfgs("stream", 3) {
		if c.Fill != "num" {
			allFor(c, 2, 3)
		}
	}
	allFor(union("stream", 3), 2, 3)
	for _, c := range joinCfgs("batch", 2) {
		allFor(c, 2, 0)
	}
	allFor(union("batch", 2), 2, 0)
	allFor(Cfg{Kind: "join", Edge: "batch", N: 3, Fill: "null", Tol: 2}, 1, 0)
	for _, c := range joinCfgs("stream", 2) {
		twoGroups(c, 3, 30)
	}
	twoGroups(Cfg{Kind: "join", Edge: "batch", N: 2, Fill: "num", Tol: 2}, 2, 40)
	for _, e := range []string{"stream", "batch"} {
		for _, n := range []int{2, 3} {
			for _, c := range joinCfgs(e, n) {
				long(c, 40)
			}
			long(union(e, n), 80)
		}
	}
	extra["bounds"] = "2 parents x <=3 messages x all interleavings for fill x tolerance (stream), x <=2 (batch); 3 parents x <=2 with whole-parent orders + 3 random schedules; two-group and long random runs"
	return scs, false, extra
}

// Run: B3 on real join/union tasks.
func Run(r *rt.Run) error {
	installGateHook()
	scs, exhaustive, extra := build(r)
	const workers = 8
	traces := make([]*rt.Trace, workers)
	btraces := make([]*rt.Trace, workers)
	for w := range traces {
		traces[w] = r.NewTrace(fmt.Sprintf("trace-w%d", w))
		btraces[w] = r.NewTrace(fmt.Sprintf("barrier-w%d", w))
	}
	var wg sync.WaitGroup
	errs := make([]error, workers)
	for w := 0; w < workers; w++ {
		wg.Add(1)
		go func(w int) {
			defer wg.Done()
			rn, err := newRunner(fmt.Sprintf("w%d", w))
			if err != nil {
				errs[w] = err
				return
			}
			defer rn.close()
			for i := w; i < len(scs); i += workers {
				if droppedTraces.Load() >= maxDropTrace {
					break // consumed-and-dropped messages recorded: the verdict is settled (dropped.go)
				}
				sc := scs[i]
				tr := traces[w]
				if sc.barrier {
					tr = btraces[w]
				}
				if sc.gated {
					rn.RunGated(tr, sc.c, sc.parents, sc.sched)
				} else {
					rn.Run(tr, sc.c, sc.parents, sc.sched)
				}
				total := 0
				for _, p := range sc.parents {
					total += len(p)
				}
				if total >= 2 {
					tr.Distinct(sc.key)
				}
			}
		}(w)
	}
	wg.Wait()
	for _, e := range errs {
		if e != nil {
			return e
		}
	}
	for k, v := range extra {
		r.Extra[k] = v
	}
	r.Extra["scenarios"] = len(scs)
	r.Extra["dropped_message_traces"] = droppedTraces.Load()
	r.Finish("real join/union tasks (stream and batch) fed one parent message at a time in a forced arrival order (hook-free: the node's timer Stop marks the end of each receiver call); every time-ordered parent sequence up to the bound x every interleaving for the grid fill{none,null,num} x tolerance{0,2}; per-step sink outputs logged; non-trivial = >= 2 messages, distinct by (config, input, schedule)", exhaustive)
	return nil
}
