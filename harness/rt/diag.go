package rt

import (
	"fmt"
	"math"
	"sort"
	"sync"
	"time"

	"github.com/influxdata/kapacitor"
	"github.com/influxdata/kapacitor/alert"
	"github.com/influxdata/kapacitor/edge"
	"github.com/influxdata/kapacitor/keyvalue"
	"github.com/influxdata/kapacitor/models"
	alertservice "github.com/influxdata/kapacitor/services/alert"
	"github.com/influxdata/kapacitor/services/httppost"
	"github.com/influxdata/kapacitor/udf"
)

// SinkItem is one message observed at a |log().prefix('<sink>') node.
type SinkItem struct {
	Sink  string
	Point edge.PointMessage         // set for stream edges
	Batch edge.BufferedBatchMessage // set for batch edges
	Seq   int                       // global arrival sequence number
}

// ErrItem is one diag.Error call.
type ErrItem struct {
	Ctx string // "task:<id>", "node:<name>", "tm", "alert", ...
	Msg string
	Err string
}

// Diag implements every Diagnostic interface the assembled services need and
// records what passes through.  LogPointData/LogBatchData are called
// synchronously from the log node's goroutine with the full edge message,
// which makes |log().prefix(..)| a universal in-process sink (DESIGN.md §3.2).
type Diag struct {
	mu     sync.Mutex
	cond   *sync.Cond
	seq    int
	items  []SinkItem
	bySink map[string]int
	errs   []ErrItem
	// OnItem, when set, is called (outside the lock) for every sink arrival.
	OnItem func(SinkItem)
	// Stopped task reports
	stopped map[string]string
}

func NewDiag() *Diag {
	d := &Diag{bySink: map[string]int{}, stopped: map[string]string{}}
	d.cond = sync.NewCond(&d.mu)
	return d
}

func (d *Diag) addItem(it SinkItem) {
	d.mu.Lock()
	d.seq++
	it.Seq = d.seq
	d.items = append(d.items, it)
	d.bySink[it.Sink]++
	cb := d.OnItem
	d.cond.Broadcast()
	d.mu.Unlock()
	if cb != nil {
		cb(it)
	}
}

// Items returns a copy of everything seen so far, in arrival order.
func (d *Diag) Items() []SinkItem {
	d.mu.Lock()
	defer d.mu.Unlock()
	return append([]SinkItem(nil), d.items...)
}

// SinkItems returns the items of one sink in arrival order.
func (d *Diag) SinkItems(sink string) []SinkItem {
	d.mu.Lock()
	defer d.mu.Unlock()
	var out []SinkItem
	for _, it := range d.items {
		if it.Sink == sink {
			out = append(out, it)
		}
	}
	return out
}

func (d *Diag) Count(sink string) int {
	d.mu.Lock()
	defer d.mu.Unlock()
	return d.bySink[sink]
}

// WaitCount waits until sink has seen at least n items or the deadline passes.
func (d *Diag) WaitCount(sink string, n int, timeout time.Duration) bool {
	deadline := time.Now().Add(timeout)
	t := time.AfterFunc(timeout, func() { d.mu.Lock(); d.cond.Broadcast(); d.mu.Unlock() })
	defer t.Stop()
	d.mu.Lock()
	defer d.mu.Unlock()
	for d.bySink[sink] < n {
		if time.Now().After(deadline) {
			return false
		}
		d.cond.Wait()
	}
	return true
}

// Clear forgets recorded items and errors.
func (d *Diag) Clear() {
	d.mu.Lock()
	d.items = nil
	d.errs = nil
	d.bySink = map[string]int{}
	d.mu.Unlock()
}

func (d *Diag) Errors() []ErrItem {
	d.mu.Lock()
	defer d.mu.Unlock()
	return append([]ErrItem(nil), d.errs...)
}

func (d *Diag) addErr(ctx, msg string, err error) {
	e := ""
	if err != nil {
		e = err.Error()
	}
	d.mu.Lock()
	d.errs = append(d.errs, ErrItem{Ctx: ctx, Msg: msg, Err: e})
	d.mu.Unlock()
}

// StoppedWithError returns the error text a task stopped with ("" if clean / unknown).
func (d *Diag) StoppedWithError(id string) (string, bool) {
	d.mu.Lock()
	defer d.mu.Unlock()
	s, ok := d.stopped[id]
	return s, ok
}

// --- kapacitor.Diagnostic
func (d *Diag) WithTaskContext(task string) kapacitor.TaskDiagnostic {
	return &ctxDiag{d: d, ctx: "task:" + task}
}
func (d *Diag) WithTaskMasterContext(tm string) kapacitor.Diagnostic { return d }
func (d *Diag) WithNodeContext(node string) kapacitor.NodeDiagnostic {
	return &ctxDiag{d: d, ctx: "node:" + node}
}
func (d *Diag) WithEdgeContext(task, parent, child string) kapacitor.EdgeDiagnostic {
	return &ctxDiag{d: d, ctx: "edge:" + task + ":" + parent + "->" + child}
}
func (d *Diag) TaskMasterOpened()      {}
func (d *Diag) TaskMasterClosed()      {}
func (d *Diag) StartingTask(id string) {}
func (d *Diag) StartedTask(id string)  {}
func (d *Diag) StoppedTask(id string) {
	d.mu.Lock()
	d.stopped[id] = ""
	d.mu.Unlock()
}
func (d *Diag) StoppedTaskWithError(id string, err error) {
	d.mu.Lock()
	d.stopped[id] = err.Error()
	d.mu.Unlock()
}
func (d *Diag) TaskMasterDot(string) {}

// --- storage.Diagnostic / alert service Diagnostic / httppost Diagnostic share Error/Info
func (d *Diag) Error(msg string, err error)        { d.addErr("svc", msg, err) }
func (d *Diag) Info(msg string, ctx ...keyvalue.T) {}

// AlertDiag adapts Diag to services/alert.Diagnostic.
type AlertDiag struct{ D *Diag }

func (a AlertDiag) WithHandlerContext(ctx ...keyvalue.T) alertservice.HandlerDiagnostic {
	return &ctxDiag{d: a.D, ctx: "alerthandler"}
}
func (a AlertDiag) MigratingHandlerSpecs()       {}
func (a AlertDiag) FoundHandlerRows(int)         {}
func (a AlertDiag) FoundNewHandler(string)       {}
func (a AlertDiag) CreatingNewHandlers(int)      {}
func (a AlertDiag) MigratingOldHandlerSpec(string) {}
func (a AlertDiag) Error(msg string, err error, ctx ...keyvalue.T) {
	a.D.addErr("alert", msg, err)
}
func (a AlertDiag) Info(msg string, ctx ...keyvalue.T) {}

// HTTPPostDiag adapts Diag to services/httppost.Diagnostic.
type HTTPPostDiag struct{ D *Diag }

func (h HTTPPostDiag) WithContext(ctx ...keyvalue.T) httppost.Diagnostic { return h }
func (h HTTPPostDiag) Error(msg string, err error, ctx ...keyvalue.T)  { h.D.addErr("httppost", msg, err) }

// ctxDiag is a Task/Node/Edge/Handler diagnostic bound to a context string.
type ctxDiag struct {
	d   *Diag
	ctx string
}

func (c *ctxDiag) WithNodeContext(node string) kapacitor.NodeDiagnostic {
	return &ctxDiag{d: c.d, ctx: c.ctx + "/node:" + node}
}
func (c *ctxDiag) Error(msg string, err error, ctx ...keyvalue.T) { c.d.addErr(c.ctx, msg, err) }
func (c *ctxDiag) AlertTriggered(level alert.Level, id string, message string, rows *models.Row) {
}
func (c *ctxDiag) SettingReplicas(new int, old int, id string) {}
func (c *ctxDiag) StartingBatchQuery(q string)                 {}
func (c *ctxDiag) LogPointData(key, prefix string, data edge.PointMessage) {
	c.d.addItem(SinkItem{Sink: prefix, Point: data})
}
func (c *ctxDiag) LogBatchData(key, prefix string, data edge.BufferedBatchMessage) {
	c.d.addItem(SinkItem{Sink: prefix, Batch: data})
}
func (c *ctxDiag) UDFLog(s string)                        {}
func (c *ctxDiag) ClosingEdge(collected, emitted int64)   {}
func (c *ctxDiag) WithUDFContext() udf.Diagnostic         { return c }

// ---------- encoding of observed data into trace records ----------

// TimeMap maps model time k <-> Epoch + k*Unit.
type TimeMap struct {
	Epoch time.Time
	Unit  time.Duration
}

// DefaultTime: the epoch is a multiple of every unit up to days relative to Go's
// zero time (what Truncate/Round use), so integer div/mod in the model agree.
var DefaultTime = TimeMap{Epoch: time.Date(2020, 1, 6, 0, 0, 0, 0, time.UTC), Unit: time.Second}

func (tm TimeMap) T(k int) time.Time { return tm.Epoch.Add(time.Duration(k) * tm.Unit) }

// K converts back; exact multiples only (panics otherwise so that a driver
// never silently rounds).
func (tm TimeMap) K(t time.Time) int {
	d := t.Sub(tm.Epoch)
	if d%tm.Unit != 0 {
		panic(fmt.Sprintf("time %v is not a whole number of units from the epoch", t))
	}
	return int(d / tm.Unit)
}

// KOK is K without the panic.
func (tm TimeMap) KOK(t time.Time) (int, bool) {
	d := t.Sub(tm.Epoch)
	if d%tm.Unit != 0 {
		return 0, false
	}
	return int(d / tm.Unit), true
}

// EncValue encodes one field value as {"t": type, "v": int|string|bool}.  Floats
// are multiplied by scale and must then be integral (drivers choose inputs so
// that results are exact); otherwise t="fx" and v is the %v string.
func EncValue(v any, scale int) M {
	switch x := v.(type) {
	case int64:
		return M{"t": "int", "v": x}
	case int:
		return M{"t": "int", "v": x}
	case float64:
		s := x * float64(scale)
		if math.IsNaN(s) || math.IsInf(s, 0) || s != math.Trunc(s) || math.Abs(s) > 1e15 {
			return M{"t": "fx", "v": fmt.Sprintf("%v", x)}
		}
		return M{"t": "float", "v": int64(s)}
	case string:
		return M{"t": "string", "v": x}
	case bool:
		return M{"t": "bool", "v": x}
	case time.Duration:
		return M{"t": "duration", "v": int64(x)}
	case time.Time:
		return M{"t": "time", "v": x.UnixNano()}
	case nil:
		return M{"t": "nil", "v": 0}
	default:
		return M{"t": fmt.Sprintf("%T", v), "v": fmt.Sprintf("%v", v)}
	}
}

func EncFields(f models.Fields, scale int) M {
	out := M{}
	for k, v := range f {
		out[k] = EncValue(v, scale)
	}
	return out
}

func EncTags(t models.Tags) M {
	out := M{}
	for k, v := range t {
		out[k] = v
	}
	return out
}

func EncDims(d models.Dimensions) M {
	names := append([]string(nil), d.TagNames...)
	return M{"byName": d.ByName, "tags": strs(names)}
}

func strs(s []string) []any {
	out := make([]any, len(s))
	for i, x := range s {
		out[i] = x
	}
	return out
}

// EncPoint encodes a stream point completely.
func EncPoint(p edge.PointMessage, tm TimeMap, scale int) M {
	k, ok := tm.KOK(p.Time())
	m := M{
		"name": p.Name(), "db": p.Database(), "rp": p.RetentionPolicy(),
		"group": string(p.GroupID()), "dims": EncDims(p.Dimensions()),
		"tags": EncTags(p.Tags()), "fields": EncFields(p.Fields(), scale),
	}
	if ok {
		m["t"] = k
	} else {
		m["t"] = -1
		m["tns"] = p.Time().UnixNano()
	}
	return m
}

// EncBatch encodes a buffered batch completely.
func EncBatch(b edge.BufferedBatchMessage, tm TimeMap, scale int) M {
	k, ok := tm.KOK(b.Time())
	if !ok {
		k = -1
	}
	pts := make([]any, 0, len(b.Points()))
	for _, bp := range b.Points() {
		pk, ok := tm.KOK(bp.Time())
		if !ok {
			pk = -1
		}
		pts = append(pts, M{"t": pk, "tags": EncTags(bp.Tags()), "fields": EncFields(bp.Fields(), scale)})
	}
	return M{
		"name": b.Name(), "group": string(b.GroupID()), "dims": EncDims(b.Dimensions()),
		"tags": EncTags(b.Tags()), "tmax": k, "points": pts,
	}
}

// SortedStrings returns a sorted copy.
func SortedStrings(s []string) []string {
	c := append([]string(nil), s...)
	sort.Strings(c)
	return c
}
