package rt

import (
	"fmt"
	"sync/atomic"

	imodels "github.com/influxdata/influxdb/models"
	"github.com/influxdata/kapacitor"
	"github.com/influxdata/kapacitor/edge"
)

// PipeResult is everything observable from one drained run of a task.
type PipeResult struct {
	Items  []SinkItem // all |log().prefix(..)| arrivals in global arrival order
	Errors []ErrItem  // every diag.Error call of the task and its nodes
	StopErr string    // error StopTask returned / the task stopped with ("" = clean)
}

// BySink returns the arrivals of one sink in order.
func (r *PipeResult) BySink(sink string) []SinkItem {
	var out []SinkItem
	for _, it := range r.Items {
		if it.Sink == sink {
			out = append(out, it)
		}
	}
	return out
}

var pipeTaskNo atomic.Int64

// RunStreamTask starts `script` as a stream task on db.rp of env, writes pts in
// order through the real ingest path (TaskMaster.WritePoints), then stops the
// task (which closes the source edge so that every node drains and exits) and
// returns what the log() sinks saw.  Exact: waits on the ingress counter, no sleeping guess.
// The env's Diag is cleared first; use one env per goroutine.
func RunStreamTask(env *Env, script string, pts []imodels.Point) (*PipeResult, error) {
	id := fmt.Sprintf("pipe%d", pipeTaskNo.Add(1))
	env.Diag.Clear()
	if _, err := env.StartTask(id, script, kapacitor.StreamTask, DefaultDBRP); err != nil {
		return nil, fmt.Errorf("define/start: %w", err)
	}
	for _, p := range pts {
		if err := env.Write("db", "rp", p); err != nil {
			env.TM.StopTask(id)
			return nil, fmt.Errorf("write: %w", err)
		}
	}
	// WritePoints only enqueues on the ingest edge; wait until the forking goroutine
	// has handed every point to the task's source edge before closing it.
	env.WaitIngress()
	res := &PipeResult{}
	if err := env.TM.StopTask(id); err != nil {
		res.StopErr = err.Error()
	}
	res.Items = env.Diag.Items()
	res.Errors = env.Diag.Errors()
	return res, nil
}

// RunBatchTask starts `script` as a batch task (its query nodes are never
// ticked) and feeds batches[i] into the i-th batch source through
// TaskMaster.BatchCollectors - the path replay uses - then closes the
// collectors and stops the task.
func RunBatchTask(env *Env, script string, batches [][]edge.BufferedBatchMessage) (*PipeResult, error) {
	id := fmt.Sprintf("pipe%d", pipeTaskNo.Add(1))
	env.Diag.Clear()
	if _, err := env.StartTask(id, script, kapacitor.BatchTask, DefaultDBRP); err != nil {
		return nil, fmt.Errorf("define/start: %w", err)
	}
	cols := env.TM.BatchCollectors(id)
	if len(cols) < len(batches) {
		env.TM.StopTask(id)
		return nil, fmt.Errorf("task has %d batch sources, %d batch lists given", len(cols), len(batches))
	}
	for i, bs := range batches {
		for _, b := range bs {
			if err := cols[i].CollectBatch(b); err != nil {
				env.TM.StopTask(id)
				return nil, fmt.Errorf("collect batch: %w", err)
			}
		}
	}
	for _, c := range cols {
		c.Close()
	}
	res := &PipeResult{}
	if err := env.TM.StopTask(id); err != nil {
		res.StopErr = err.Error()
	}
	res.Items = env.Diag.Items()
	res.Errors = env.Diag.Errors()
	return res, nil
}
