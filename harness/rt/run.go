package rt

import (
	"fmt"
	"math/rand"
	"os"
	"path/filepath"
)

// Run is the context handed to every driver.
type Run struct {
	Property string
	Tier     string // quick | thorough
	Seed     int64
	OutDir   string
	Rand     *rand.Rand
	Args     []string
	Extra    map[string]any
	traces   []*Trace
}

func (r *Run) Thorough() bool { return r.Tier == "thorough" }

// NewTrace opens <out>/<name>.ndjson.
func (r *Run) NewTrace(name string) *Trace {
	t, err := NewTrace(filepath.Join(r.OutDir, name+".ndjson"))
	if err != nil {
		Fatalf("open trace: %v", err)
	}
	r.traces = append(r.traces, t)
	return t
}

// Finish closes all traces and writes meta.json.
func (r *Run) Finish(rule string, exhaustive bool) {
	m := &Meta{Property: r.Property, Tier: r.Tier, Seed: r.Seed, Rule: rule, Exhaustive: exhaustive, Extra: r.Extra}
	for _, t := range r.traces {
		if err := t.Close(); err != nil {
			Fatalf("close trace: %v", err)
		}
		m.Traces += t.Traces
		m.Events += t.Events
		m.Distinct += t.NDistinct()
		m.TraceFiles = append(m.TraceFiles, t.Path())
		for _, s := range t.Samples() {
			if len(m.Samples) < 4 {
				m.Samples = append(m.Samples, s)
			}
		}
	}
	if err := WriteMeta(r.OutDir, m); err != nil {
		Fatalf("write meta: %v", err)
	}
}

// Fatalf reports a harness failure (exit 2: check broken, never a verdict).
func Fatalf(format string, a ...any) {
	fmt.Fprintf(os.Stderr, "HARNESS-ERROR: "+format+"\n", a...)
	os.Exit(2)
}
