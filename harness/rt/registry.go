package rt

// Registry maps a driver name (kvh <name>) to its entry point.  Driver packages
// register themselves from init(); cmd/kvh imports every package under
// harness/drivers through the generated file cmd/kvh/imports_gen.go.
var Registry = map[string]func(*Run) error{}

func Register(name string, fn func(*Run) error) {
	if _, dup := Registry[name]; dup {
		panic("duplicate driver " + name)
	}
	Registry[name] = fn
}
