// Package rt is the harness runtime: NDJSON trace writer, recording
// diagnostics (the universal log() sink), TaskMaster assembly, fakes.
package rt

import (
	"bufio"
	"encoding/json"
	"fmt"
	"os"
	"path/filepath"
	"reflect"
	"sort"
	"sync"
)

// M is one JSON object (a trace event or a nested record).
type M = map[string]any

// Trace writes NDJSON events.  Traces of one run are concatenated; every trace
// starts with a {"ev":"Reset", ...} line (DESIGN.md §3.4).  Values must be
// ints, strings, bools, arrays or objects (TLC's Json module has no floats or
// nulls worth relying on).
type Trace struct {
	mu       sync.Mutex
	f        *os.File
	w        *bufio.Writer
	Traces   int
	Events   int
	cur      []M
	samples  [][]M
	maxSamp  int
	sampleEv int
	distinct map[string]struct{}
}

func NewTrace(path string) (*Trace, error) {
	if err := os.MkdirAll(filepath.Dir(path), 0o755); err != nil {
		return nil, err
	}
	f, err := os.Create(path)
	if err != nil {
		return nil, err
	}
	return &Trace{f: f, w: bufio.NewWriterSize(f, 1<<20), maxSamp: 3, sampleEv: 40, distinct: map[string]struct{}{}}, nil
}

// noNull replaces nil slices/maps/interfaces by empty arrays: TLC's Json module cannot read null.
func noNull(v any) any {
	if v == nil {
		return []any{}
	}
	switch x := v.(type) {
	case M:
		if x == nil {
			return M{}
		}
		for k, e := range x {
			x[k] = noNull(e)
		}
		return x
	case []any:
		if x == nil {
			return []any{}
		}
		for i, e := range x {
			x[i] = noNull(e)
		}
		return x
	}
	rv := reflect.ValueOf(v)
	switch rv.Kind() {
	case reflect.Slice, reflect.Map, reflect.Pointer, reflect.Interface:
		if rv.IsNil() {
			return []any{}
		}
	}
	return v
}

func (t *Trace) emit(m M) {
	noNull(m)
	// "ev" always comes first (verifylib splits and cuts traces at lines starting with {"ev":"Reset"),
	// whatever the other keys are called; the remaining keys are sorted by encoding/json.
	ev, _ := m["ev"].(string)
	rest := make(M, len(m))
	for k, v := range m {
		if k != "ev" {
			rest[k] = v
		}
	}
	b, err := json.Marshal(rest)
	if err != nil {
		panic(fmt.Sprintf("trace: cannot marshal %v: %v", m, err))
	}
	evb, _ := json.Marshal(ev)
	if len(rest) == 0 {
		b = []byte(`{"ev":` + string(evb) + `}`)
	} else {
		b = append([]byte(`{"ev":`+string(evb)+`,`), b[1:]...)
	}
	t.w.Write(b)
	t.w.WriteByte('\n')
	t.Events++
	if len(t.samples) < t.maxSamp || t.cur != nil {
		if len(t.cur) < t.sampleEv {
			t.cur = append(t.cur, m)
		}
	}
}

// Reset starts a new trace with the given configuration fields.
func (t *Trace) Reset(cfg M) {
	t.mu.Lock()
	defer t.mu.Unlock()
	t.closeSample()
	t.Traces++
	m := M{"ev": "Reset"}
	for k, v := range cfg {
		m[k] = v
	}
	if len(t.samples) < t.maxSamp {
		t.cur = []M{}
	}
	t.emit(m)
}

func (t *Trace) closeSample() {
	if t.cur != nil && len(t.samples) < t.maxSamp {
		t.samples = append(t.samples, t.cur)
	}
	t.cur = nil
}

// Event appends one event line.
func (t *Trace) Event(ev string, fields M) {
	t.mu.Lock()
	defer t.mu.Unlock()
	m := M{"ev": ev}
	for k, v := range fields {
		m[k] = v
	}
	t.emit(m)
}

// Distinct records a canonical key of a non-trivial case (counted in meta).
func (t *Trace) Distinct(key string) {
	t.mu.Lock()
	t.distinct[key] = struct{}{}
	t.mu.Unlock()
}

// Meta is what a driver reports next to its trace file.
type Meta struct {
	Property   string         `json:"property"`
	Tier       string         `json:"tier"`
	Seed       int64          `json:"seed"`
	Traces     int            `json:"traces"`
	Events     int            `json:"events"`
	Distinct   int            `json:"distinct_nontrivial"`
	Rule       string         `json:"rule"`
	Exhaustive bool           `json:"exhaustive"`
	Samples    [][]M          `json:"samples"`
	Extra      map[string]any `json:"extra,omitempty"`
	TraceFiles []string       `json:"trace_files"`
}

func (t *Trace) Close() error {
	t.mu.Lock()
	defer t.mu.Unlock()
	t.closeSample()
	if err := t.w.Flush(); err != nil {
		return err
	}
	return t.f.Close()
}

func (t *Trace) Samples() [][]M { return t.samples }
func (t *Trace) NDistinct() int { return len(t.distinct) }
func (t *Trace) Path() string   { return t.f.Name() }

func WriteMeta(dir string, m *Meta) error {
	b, err := json.MarshalIndent(m, "", " ")
	if err != nil {
		return err
	}
	return os.WriteFile(filepath.Join(dir, "meta.json"), b, 0o644)
}

// SortedKeys returns the sorted keys of a string-keyed map.
func SortedKeys[V any](m map[string]V) []string {
	ks := make([]string, 0, len(m))
	for k := range m {
		ks = append(ks, k)
	}
	sort.Strings(ks)
	return ks
}
