package rt

import (
	"context"
	"errors"
	"fmt"
	"os"
	"path/filepath"
	"sync"
	"sync/atomic"
	"time"

	"github.com/influxdata/flux"
	imodels "github.com/influxdata/influxdb/models"
	"github.com/influxdata/kapacitor"
	"github.com/influxdata/kapacitor/alert"
	"github.com/influxdata/kapacitor/influxdb"
	"github.com/influxdata/kapacitor/server/vars"
	alertservice "github.com/influxdata/kapacitor/services/alert"
	"github.com/influxdata/kapacitor/services/httpd"
	"github.com/influxdata/kapacitor/services/httppost"
	"github.com/influxdata/kapacitor/services/storage"
)

// FakeHTTPD collects routes; handlers can be invoked directly.
type FakeHTTPD struct {
	mu     sync.Mutex
	Routes []httpd.Route
}

func (f *FakeHTTPD) AddRoutes(r []httpd.Route) error {
	f.mu.Lock()
	f.Routes = append(f.Routes, r...)
	f.mu.Unlock()
	return nil
}
func (f *FakeHTTPD) DelRoutes(rs []httpd.Route) {
	f.mu.Lock()
	defer f.mu.Unlock()
	for _, d := range rs {
		for i, r := range f.Routes {
			if r.Method == d.Method && r.Pattern == d.Pattern {
				f.Routes = append(f.Routes[:i], f.Routes[i+1:]...)
				break
			}
		}
	}
}
func (f *FakeHTTPD) URL() string { return "http://localhost:9092/kapacitor/v1" }

type nopTaskStore struct{}

func (nopTaskStore) SaveSnapshot(string, *kapacitor.TaskSnapshot) error { return nil }
func (nopTaskStore) HasSnapshot(string) bool                            { return false }
func (nopTaskStore) LoadSnapshot(string) (*kapacitor.TaskSnapshot, error) {
	return nil, errors.New("not implemented")
}

type nopDeadman struct{}

func (nopDeadman) Interval() time.Duration { return 0 }
func (nopDeadman) Threshold() float64      { return 0 }
func (nopDeadman) Id() string              { return "" }
func (nopDeadman) Message() string         { return "" }
func (nopDeadman) Global() bool            { return false }

// Env is an assembled TaskMaster + alert service + storage, the same wiring
// as server.go / integrations.createTaskMaster, without the server package.
type Env struct {
	Diag    *Diag
	TM      *kapacitor.TaskMaster
	Alert   *alertservice.Service
	Storage *storage.Service
	HTTPD   *FakeHTTPD
	Influx  *FakeInflux
	Dir     string
	ownDir  bool
	ID      string // unique TaskMaster id (statistics are process-global and keyed by it)
	written atomic.Int64
}

var envNo atomic.Int64

type EnvOpts struct {
	PersistTopics bool
	// BoltPath: use this file (kept on Close); otherwise a fresh temp dir.
	BoltPath string
	// StorageWrap, if set, wraps the storage service seen by the alert service.
	StorageWrap func(alertservice.StorageService) alertservice.StorageService
	Diag        *Diag
	// TopicBufLen for alert.NewTopics (0 = default).
	TopicBufLen int
}

// NewEnv assembles and opens everything.
func NewEnv(o EnvOpts) (*Env, error) {
	e := &Env{Diag: o.Diag}
	if e.Diag == nil {
		e.Diag = NewDiag()
	}
	path := o.BoltPath
	if path == "" {
		dir, err := os.MkdirTemp("", "kvh-env-")
		if err != nil {
			return nil, err
		}
		e.Dir, e.ownDir = dir, true
		path = filepath.Join(dir, "kapacitor.db")
	}
	e.HTTPD = &FakeHTTPD{}
	e.Storage = storage.NewService(storage.Config{BoltDBPath: path}, e.Diag)
	e.Storage.HTTPDService = e.HTTPD
	if err := e.Storage.Open(); err != nil {
		return nil, fmt.Errorf("storage open: %w", err)
	}
	e.ID = fmt.Sprintf("tm%d", envNo.Add(1))
	tm := kapacitor.NewTaskMaster(e.ID, vars.Info, e.Diag)
	tm.HTTPDService = e.HTTPD
	tm.TaskStore = nopTaskStore{}
	tm.DeadmanService = nopDeadman{}
	hp, err := httppost.NewService(nil, HTTPPostDiag{e.Diag})
	if err != nil {
		return nil, err
	}
	tm.HTTPPostService = hp
	as := alertservice.NewService(AlertDiag{e.Diag}, nil, o.TopicBufLen)
	as.PersistTopics = o.PersistTopics
	var ss alertservice.StorageService = e.Storage
	if o.StorageWrap != nil {
		ss = o.StorageWrap(ss)
	}
	as.StorageService = ss
	as.HTTPDService = e.HTTPD
	as.HTTPPostService = hp
	if err := as.Open(); err != nil {
		return nil, fmt.Errorf("alert open: %w", err)
	}
	e.Alert = as
	tm.AlertService = as
	e.Influx = NewFakeInflux()
	tm.InfluxDBService = e.Influx
	if err := tm.Open(); err != nil {
		return nil, fmt.Errorf("tm open: %w", err)
	}
	e.TM = tm
	return e, nil
}

// Close shuts everything down (TaskMaster first, as the server does).
func (e *Env) Close() {
	if e.TM != nil {
		e.TM.Close()
	}
	if e.Alert != nil {
		e.Alert.Close()
	}
	if e.Storage != nil {
		e.Storage.Close()
	}
	if e.ownDir {
		os.RemoveAll(e.Dir)
	}
}

// StartStream defines and starts a stream task on dbrp db.rp.
func (e *Env) StartTask(id, script string, tt kapacitor.TaskType, dbrps []kapacitor.DBRP) (*kapacitor.ExecutingTask, error) {
	t, err := e.TM.NewTask(id, script, tt, dbrps, 0, nil)
	if err != nil {
		return nil, err
	}
	return e.TM.StartTask(t)
}

var DefaultDBRP = []kapacitor.DBRP{{Database: "db", RetentionPolicy: "rp"}}

// Write sends points through the real ingest path.
func (e *Env) Write(db, rp string, pts ...imodels.Point) error {
	err := e.TM.WritePoints(db, rp, imodels.ConsistencyLevelAll, pts)
	if err == nil {
		e.written.Add(int64(len(pts)))
	}
	return err
}

// Ingress returns how many written points the TaskMaster's forking goroutine has
// finished fanning out to the task edges (statistic "ingress", incremented at the
// end of forkPoint).  WritePoints only enqueues; a point is in a task's source
// edge once Ingress has counted it.
func (e *Env) Ingress() int64 {
	data, err := vars.GetStatsData()
	if err != nil {
		return -1
	}
	var n int64
	for _, d := range data {
		if d.Name == "ingress" && d.Tags["task_master"] == e.ID {
			if v, ok := d.Values["points_received"].(int64); ok {
				n += v
			}
		}
	}
	return n
}

// WaitIngress blocks until every point accepted by Write so far has been forked
// (exact, no sleeping guess).  A miss after the deadline is a harness failure.
func (e *Env) WaitIngress() {
	want := e.written.Load()
	deadline := time.Now().Add(60 * time.Second)
	// Ingress walks the process-wide statistics: poll with a short exponential backoff, not a spin.
	pause := 20 * time.Microsecond
	for e.Ingress() < want {
		if time.Now().After(deadline) {
			Fatalf("ingest did not drain: %d of %d points forked after 60s", e.Ingress(), want)
		}
		time.Sleep(pause)
		if pause < 2*time.Millisecond {
			pause *= 2
		}
	}
}

// MustPoint builds an influx point.
func MustPoint(name string, tags map[string]string, fields map[string]any, t time.Time) imodels.Point {
	p, err := imodels.NewPoint(name, imodels.NewTags(tags), fields, t)
	if err != nil {
		panic(err)
	}
	return p
}

// ---------- fake InfluxDB ----------

type InfluxWrite struct {
	DB, RP string
	Points []influxdb.Point
}

// FakeInflux is an InfluxDBService whose client records writes/queries and can
// be stalled with a gate.
type FakeInflux struct {
	mu      sync.Mutex
	cond    *sync.Cond
	Writes  []InfluxWrite
	Queries []influxdb.Query
	// gate: when closed (blocked=true) Write blocks until Release.
	blocked  bool
	inWrite  int
	WriteErr error
	// QueryFn answers queries (nil → empty response).
	QueryFn func(q influxdb.Query) (*influxdb.Response, error)
}

func NewFakeInflux() *FakeInflux {
	f := &FakeInflux{}
	f.cond = sync.NewCond(&f.mu)
	return f
}

func (f *FakeInflux) NewNamedClient(name string) (influxdb.Client, error) { return f, nil }
func (f *FakeInflux) Block()                                             { f.mu.Lock(); f.blocked = true; f.mu.Unlock() }
func (f *FakeInflux) Release() {
	f.mu.Lock()
	f.blocked = false
	f.cond.Broadcast()
	f.mu.Unlock()
}

// WaitInWrite waits until n writers are blocked inside Write.
func (f *FakeInflux) WaitInWrite(n int, timeout time.Duration) bool {
	deadline := time.Now().Add(timeout)
	for {
		f.mu.Lock()
		ok := f.inWrite >= n
		f.mu.Unlock()
		if ok {
			return true
		}
		if time.Now().After(deadline) {
			return false
		}
		time.Sleep(200 * time.Microsecond)
	}
}

func (f *FakeInflux) WrittenPoints() []influxdb.Point {
	f.mu.Lock()
	defer f.mu.Unlock()
	var out []influxdb.Point
	for _, w := range f.Writes {
		out = append(out, w.Points...)
	}
	return out
}

func (f *FakeInflux) Ping(ctx context.Context) (time.Duration, string, error) {
	return 0, "fake", nil
}
func (f *FakeInflux) Write(bp influxdb.BatchPoints) error {
	f.mu.Lock()
	defer f.mu.Unlock()
	f.inWrite++
	for f.blocked {
		f.cond.Wait()
	}
	f.inWrite--
	if f.WriteErr != nil {
		return f.WriteErr
	}
	f.Writes = append(f.Writes, InfluxWrite{DB: bp.Database(), RP: bp.RetentionPolicy(), Points: append([]influxdb.Point(nil), bp.Points()...)})
	return nil
}
func (f *FakeInflux) WriteV2(w influxdb.FluxWrite) error { return errors.New("not supported") }
func (f *FakeInflux) Query(q influxdb.Query) (*influxdb.Response, error) {
	f.mu.Lock()
	f.Queries = append(f.Queries, q)
	fn := f.QueryFn
	f.mu.Unlock()
	if fn != nil {
		return fn(q)
	}
	return &influxdb.Response{}, nil
}
func (f *FakeInflux) QueryFlux(q influxdb.FluxQuery) (flux.ResultIterator, error) {
	return nil, errors.New("not supported")
}
func (f *FakeInflux) QueryFluxResponse(q influxdb.FluxQuery) (*influxdb.Response, error) {
	return nil, errors.New("not supported")
}
func (f *FakeInflux) CreateBucketV2(bucket, org, orgID string) error { return nil }

// ---------- recording alert handler ----------

// RecHandler records every event it is handed; an optional gate stalls it.
type RecHandler struct {
	Name    string
	mu      sync.Mutex
	cond    *sync.Cond
	Events  []alert.Event
	blocked bool
}

func NewRecHandler(name string) *RecHandler {
	h := &RecHandler{Name: name}
	h.cond = sync.NewCond(&h.mu)
	return h
}
func (h *RecHandler) Handle(e alert.Event) {
	h.mu.Lock()
	for h.blocked {
		h.cond.Wait()
	}
	h.Events = append(h.Events, e)
	h.cond.Broadcast()
	h.mu.Unlock()
}
func (h *RecHandler) Block() { h.mu.Lock(); h.blocked = true; h.mu.Unlock() }
func (h *RecHandler) Release() {
	h.mu.Lock()
	h.blocked = false
	h.cond.Broadcast()
	h.mu.Unlock()
}
func (h *RecHandler) Snapshot() []alert.Event {
	h.mu.Lock()
	defer h.mu.Unlock()
	return append([]alert.Event(nil), h.Events...)
}
func (h *RecHandler) Len() int {
	h.mu.Lock()
	defer h.mu.Unlock()
	return len(h.Events)
}

// EncEvent encodes an alert event as handlers see it.
func EncEvent(e alert.Event, tm TimeMap) M {
	k, ok := tm.KOK(e.State.Time)
	if !ok {
		k = -1
	}
	dur := int64(-1)
	if e.State.Duration%tm.Unit == 0 {
		dur = int64(e.State.Duration / tm.Unit)
	}
	return M{"topic": e.Topic, "id": e.State.ID, "lvl": int(e.State.Level), "t": k, "dur": dur,
		"prev": int(e.PreviousState().Level)}
}
