package rt

// Flush writes everything buffered so far to the trace file (for drivers whose process may be killed
// by the code under test: the trace up to the fatal scenario must be on disk).  Added for C07.
func (t *Trace) Flush() error {
	t.mu.Lock()
	defer t.mu.Unlock()
	return t.w.Flush()
}
