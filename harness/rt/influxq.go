package rt

import "github.com/influxdata/kapacitor/influxdb"

// QueryCount returns how many queries the fake client has received so far.
func (f *FakeInflux) QueryCount() int {
	f.mu.Lock()
	defer f.mu.Unlock()
	return len(f.Queries)
}

// QueriesFrom returns a copy of the queries received from index i on.
func (f *FakeInflux) QueriesFrom(i int) []influxdb.Query {
	f.mu.Lock()
	defer f.mu.Unlock()
	if i > len(f.Queries) {
		i = len(f.Queries)
	}
	return append([]influxdb.Query(nil), f.Queries[i:]...)
}
