package rt

import (
	"os"
	"path/filepath"

	"github.com/influxdata/kapacitor/services/storage"
	bolt "go.etcd.io/bbolt"
)

// BoltStore is a StorageService (for services/alert, task_store, ...) over a
// Bolt file the harness owns.  With NoSync it is fast enough for tens of
// thousands of short traces; crash/snapshot drivers use a synced file instead.
type BoltStore struct {
	DB        *bolt.DB
	path      string
	versions  storage.Versions
	registrar *storage.StoreActionerRegistrar
	diag      storage.Diagnostic
	rmDir     string
}

// NewBoltStore opens (creating if needed) the Bolt file at path.  path=="" uses
// a fresh file under /dev/shm (or the temp dir) that is removed on Close.
func NewBoltStore(path string, noSync bool, d storage.Diagnostic) (*BoltStore, error) {
	s := &BoltStore{diag: d}
	if path == "" {
		base := "/dev/shm"
		if st, err := os.Stat(base); err != nil || !st.IsDir() {
			base = os.TempDir()
		}
		dir, err := os.MkdirTemp(base, "kvh-bolt-")
		if err != nil {
			return nil, err
		}
		s.rmDir = dir
		path = filepath.Join(dir, "kapacitor.db")
	}
	db, err := bolt.Open(path, 0o600, &bolt.Options{NoSync: noSync, NoGrowSync: noSync, NoFreelistSync: noSync})
	if err != nil {
		return nil, err
	}
	s.DB, s.path = db, path
	s.versions = storage.NewVersions(storage.NewBolt(db, []byte("versions")))
	s.registrar = storage.NewStorageRegistrar()
	return s, nil
}

func (s *BoltStore) Store(name string) storage.Interface { return storage.NewBolt(s.DB, []byte(name)) }
func (s *BoltStore) Versions() storage.Versions         { return s.versions }
func (s *BoltStore) Register(name string, store storage.StoreActioner) {
	s.registrar.Register(name, store)
}
func (s *BoltStore) Diagnostic() storage.Diagnostic { return s.diag }
func (s *BoltStore) Path() string                   { return s.path }
func (s *BoltStore) CloseBolt() error               { return s.DB.Close() }
func (s *BoltStore) Close() error {
	err := s.DB.Close()
	if s.rmDir != "" {
		os.RemoveAll(s.rmDir)
	}
	return err
}
