package rt

// Harness-owned StorageService with transaction observation and consistent
// snapshots (DESIGN.md §2.3 "crash points"), a signalling TimingService
// (exact "node has finished message k" without hooks) and an Env assembled on
// a given StorageService.  Added for C08; generic enough for C14.

import (
	"fmt"
	"sync"
	"sync/atomic"
	"time"

	"github.com/influxdata/kapacitor"
	"github.com/influxdata/kapacitor/alert"
	"github.com/influxdata/kapacitor/keyvalue"
	"github.com/influxdata/kapacitor/server/vars"
	alertservice "github.com/influxdata/kapacitor/services/alert"
	"github.com/influxdata/kapacitor/services/httppost"
	"github.com/influxdata/kapacitor/services/storage"
	"github.com/influxdata/kapacitor/timer"
	bolt "go.etcd.io/bbolt"
)

// TxOp is one write performed inside an observed Update transaction.
type TxOp struct {
	Bucket []string // bucket path below the namespace
	Op     string   // put | del
	Key    string
	Value  []byte
}

// SnapStore wraps a BoltStore.  Every Interface.Update of every namespace
// handed out by Store() calls OnUpdate(ns, "begin", nil, nil) before the
// write transaction starts and OnUpdate(ns, "end", ops, err) after it has
// committed (or rolled back: err != nil).  Bolt commits are atomic, so the
// file as it stands at "begin" / "end" is exactly the storage before / after
// the commit.  Snapshot copies the file through a read transaction.
type SnapStore struct {
	*BoltStore
	OnUpdate func(ns, phase string, ops []TxOp, err error)
	// Views counts completed Interface.View calls (all namespaces).
	Views atomic.Int64
}

func NewSnapStore(b *BoltStore) *SnapStore { return &SnapStore{BoltStore: b} }

func (s *SnapStore) Store(ns string) storage.Interface {
	return &snapIface{s: s, ns: ns, in: s.BoltStore.Store(ns)}
}

// Versions goes through the observed "versions" namespace as well.
func (s *SnapStore) Versions() storage.Versions { return storage.NewVersions(s.Store("versions")) }

// Snapshot writes a consistent copy of the Bolt file to path.
func (s *SnapStore) Snapshot(path string) error {
	return s.DB.View(func(tx *bolt.Tx) error { return tx.CopyFile(path, 0o600) })
}

type snapIface struct {
	s      *SnapStore
	ns     string
	in     storage.Interface
	bucket []string
}

func (i *snapIface) View(f func(storage.ReadOnlyTx) error) error {
	err := i.in.View(f)
	i.s.Views.Add(1)
	return err
}
func (i *snapIface) Store(buckets ...[]byte) storage.Interface {
	bs := make([]string, len(buckets))
	for k, b := range buckets {
		bs[k] = string(b)
	}
	return &snapIface{s: i.s, ns: i.ns, in: i.in.Store(buckets...), bucket: bs}
}
func (i *snapIface) Update(f func(storage.Tx) error) error {
	cb := i.s.OnUpdate
	if cb != nil {
		cb(i.ns, "begin", nil, nil)
	}
	var ops []TxOp
	err := i.in.Update(func(tx storage.Tx) error {
		return f(&recTx{Tx: tx, ops: &ops, bucket: i.bucket})
	})
	if cb != nil {
		cb(i.ns, "end", ops, err)
	}
	return err
}

type recTx struct {
	storage.Tx
	ops    *[]TxOp
	bucket []string
}

func (t *recTx) Bucket(name []byte) storage.Tx {
	in := t.Tx.Bucket(name)
	if in == nil {
		return nil
	}
	b := append(append([]string(nil), t.bucket...), string(name))
	if name == nil {
		b = nil
	}
	return &recTx{Tx: in, ops: t.ops, bucket: b}
}
func (t *recTx) Put(key string, value []byte) error {
	err := t.Tx.Put(key, value)
	if err == nil {
		*t.ops = append(*t.ops, TxOp{Bucket: t.bucket, Op: "put", Key: key, Value: append([]byte(nil), value...)})
	}
	return err
}
func (t *recTx) Delete(key string) error {
	err := t.Tx.Delete(key)
	if err == nil {
		*t.ops = append(*t.ops, TxOp{Bucket: t.bucket, Op: "del", Key: key})
	}
	return err
}

// ---------- signalling TimingService ----------

// Timing is a kapacitor TimingService whose timers count Start/Stop calls.
// Every node wraps the handling of one message in timer.Start()/Stop()
// (edge.NewTimedForwardReceiver), so "timer i has stopped k times" is an
// exact, hook-free signal that node i has completely finished its k-th message.
type Timing struct {
	mu     sync.Mutex
	cond   *sync.Cond
	timers []*SigTimer
}

func NewTiming() *Timing {
	t := &Timing{}
	t.cond = sync.NewCond(&t.mu)
	return t
}

type SigTimer struct {
	t             *Timing
	starts, stops int
}

func (t *Timing) NewTimer(timer.Setter) timer.Timer {
	t.mu.Lock()
	defer t.mu.Unlock()
	st := &SigTimer{t: t}
	t.timers = append(t.timers, st)
	return st
}
func (s *SigTimer) Start()  { s.t.mu.Lock(); s.starts++; s.t.mu.Unlock() }
func (s *SigTimer) Pause()  {}
func (s *SigTimer) Resume() {}
func (s *SigTimer) Stop() {
	s.t.mu.Lock()
	s.stops++
	s.t.cond.Broadcast()
	s.t.mu.Unlock()
}

// N is the number of timers created so far (one per node, in node creation order).
func (t *Timing) N() int { t.mu.Lock(); defer t.mu.Unlock(); return len(t.timers) }

// Stops returns the number of completed messages of timer i.
func (t *Timing) Stops(i int) int { t.mu.Lock(); defer t.mu.Unlock(); return t.timers[i].stops }

// WaitStops waits until timer i has completed at least n messages and is not inside one.
func (t *Timing) WaitStops(i, n int, timeout time.Duration) bool {
	deadline := time.Now().Add(timeout)
	tm := time.AfterFunc(timeout, func() { t.mu.Lock(); t.cond.Broadcast(); t.mu.Unlock() })
	defer tm.Stop()
	t.mu.Lock()
	defer t.mu.Unlock()
	for i >= len(t.timers) || t.timers[i].stops < n || t.timers[i].starts != t.timers[i].stops {
		if time.Now().After(deadline) {
			return false
		}
		t.cond.Wait()
	}
	return true
}

// ---------- fake TalkService: `.talk()` on an alert node / kind "talk" specs become recorders ----------

type TalkRecorder struct {
	mu sync.Mutex
	Hs []*RecHandler
}

func (t *TalkRecorder) Handler(ctx ...keyvalue.T) alert.Handler {
	h := NewRecHandler("")
	t.mu.Lock()
	t.Hs = append(t.Hs, h)
	t.mu.Unlock()
	return h
}

// All returns the events of all handlers created so far, in handler creation order.
func (t *TalkRecorder) All() []alert.Event {
	t.mu.Lock()
	hs := append([]*RecHandler(nil), t.Hs...)
	t.mu.Unlock()
	var out []alert.Event
	for _, h := range hs {
		out = append(out, h.Snapshot()...)
	}
	return out
}

// ---------- Env on a given StorageService ----------

// StoreEnv is TaskMaster + alert service on a StorageService the caller owns
// (the caller closes the store).
type StoreEnv struct {
	Diag     *Diag
	TM       *kapacitor.TaskMaster
	Alert    *alertservice.Service
	Timing   *Timing
	NodeTalk *TalkRecorder // handlers created by `.talk()` on alert nodes
	SpecTalk *TalkRecorder // handlers created from handler specs of kind "talk"
}

// NewStoreEnv assembles and opens the alert service (PersistTopics as given)
// and a TaskMaster on ss.  topicBufLen is the per-handler event buffer of the
// topics (0 = kapacitor's default of 5000 events, about 1.7 MB per handler).
func NewStoreEnv(ss alertservice.StorageService, persist bool, d *Diag, topicBufLen int) (*StoreEnv, error) {
	if d == nil {
		d = NewDiag()
	}
	e := &StoreEnv{Diag: d, Timing: NewTiming(), NodeTalk: &TalkRecorder{}, SpecTalk: &TalkRecorder{}}
	httpd := &FakeHTTPD{}
	hp, err := httppost.NewService(nil, HTTPPostDiag{d})
	if err != nil {
		return nil, err
	}
	as := alertservice.NewService(AlertDiag{d}, nil, topicBufLen)
	as.PersistTopics = persist
	as.StorageService = ss
	as.HTTPDService = httpd
	as.HTTPPostService = hp
	as.TalkService = e.SpecTalk
	if err := as.Open(); err != nil {
		return nil, fmt.Errorf("alert open: %w", err)
	}
	e.Alert = as
	tm := kapacitor.NewTaskMaster("main", vars.Info, d)
	tm.HTTPDService = httpd
	tm.TaskStore = nopTaskStore{}
	tm.DeadmanService = nopDeadman{}
	tm.HTTPPostService = hp
	tm.AlertService = as
	tm.InfluxDBService = NewFakeInflux()
	tm.TalkService = e.NodeTalk
	tm.TimingService = e.Timing
	if err := tm.Open(); err != nil {
		as.Close()
		return nil, fmt.Errorf("tm open: %w", err)
	}
	e.TM = tm
	return e, nil
}

// Close stops the TaskMaster and the alert service (not the store).
func (e *StoreEnv) Close() {
	if e.TM != nil {
		e.TM.Close()
	}
	if e.Alert != nil {
		e.Alert.Close()
	}
}
