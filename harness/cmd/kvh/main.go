// kvh: the single harness binary.  `kvh <driver> -tier quick|thorough -seed N -out DIR [args]`
package main

import (
	"flag"
	"fmt"
	"math/rand"
	"os"
	"sort"

	"kapverif/rt"
)

func main() {
	if len(os.Args) < 2 {
		names := make([]string, 0)
		for n := range rt.Registry {
			names = append(names, n)
		}
		sort.Strings(names)
		fmt.Fprintf(os.Stderr, "usage: kvh <driver> [flags]; drivers: %v\n", names)
		os.Exit(2)
	}
	name := os.Args[1]
	fs := flag.NewFlagSet(name, flag.ExitOnError)
	tier := fs.String("tier", "quick", "quick|thorough")
	seed := fs.Int64("seed", 1, "seed for every random choice")
	out := fs.String("out", "", "output directory")
	fs.Parse(os.Args[2:])
	fn, ok := rt.Registry[name]
	if !ok {
		rt.Fatalf("unknown driver %q", name)
	}
	if *out == "" {
		rt.Fatalf("-out required")
	}
	if err := os.MkdirAll(*out, 0o755); err != nil {
		rt.Fatalf("%v", err)
	}
	r := &rt.Run{Property: name, Tier: *tier, Seed: *seed, OutDir: *out, Rand: rand.New(rand.NewSource(*seed)), Args: fs.Args(), Extra: map[string]any{}}
	if err := fn(r); err != nil {
		rt.Fatalf("driver %s: %v", name, err)
	}
}
