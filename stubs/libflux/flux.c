/* Link-time stand-in for libflux (the Rust Flux parser/analyser), which cannot
 * be built in this sealed sandbox.  Kapacitor's TICKscript engine never calls
 * into it; only Flux tasks do, which are outside every listed property.
 * flux_get_env_stdlib must answer (flux/runtime calls it from a package var):
 * it returns an empty flatbuffer TypeEnvironment.  Everything else aborts
 * loudly so a harness that wanders into Flux fails (exit 2), never a verdict. */
#include <stdio.h>
#include <stdlib.h>
#include <string.h>
#include "influxdata/flux.h"

#define DIE(name) do { fprintf(stderr, "libflux stub: %s called\n", name); abort(); } while (0)

static const unsigned char empty_fb[12] = {8,0,0,0, 4,0,4,0, 4,0,0,0};

void flux_get_env_stdlib(struct flux_buffer_t *b) {
	b->data = malloc(sizeof empty_fb);
	memcpy(b->data, empty_fb, sizeof empty_fb);
	b->len = sizeof empty_fb;
}
void flux_free_bytes(const char *p) { free((void *)p); }
void flux_free_error(struct flux_error_t *e) { (void)e; }
const char *flux_error_str(struct flux_error_t *e) { (void)e; return "libflux stub"; }
void flux_error_print(struct flux_error_t *e) { (void)e; }
void flux_semantic_packages(struct flux_buffer_t *b) { (void)b; DIE("flux_semantic_packages"); }
struct flux_ast_pkg_t *flux_parse(const char *f, const char *s) { (void)f; (void)s; DIE("flux_parse"); }
struct flux_error_t *flux_ast_format(struct flux_ast_pkg_t *p, struct flux_buffer_t *b) { (void)p; (void)b; DIE("flux_ast_format"); }
struct flux_error_t *flux_ast_get_error(struct flux_ast_pkg_t *p, const char *o) { (void)p; (void)o; DIE("flux_ast_get_error"); }
void flux_free_ast_pkg(struct flux_ast_pkg_t *p) { (void)p; }
struct flux_error_t *flux_merge_ast_pkgs(struct flux_ast_pkg_t *a, struct flux_ast_pkg_t *b) { (void)a; (void)b; DIE("flux_merge_ast_pkgs"); }
struct flux_error_t *flux_parse_json(const char *s, struct flux_ast_pkg_t **p) { (void)s; (void)p; DIE("flux_parse_json"); }
struct flux_error_t *flux_ast_marshal_json(struct flux_ast_pkg_t *p, struct flux_buffer_t *b) { (void)p; (void)b; DIE("flux_ast_marshal_json"); }
struct flux_stateful_analyzer_t *flux_new_stateful_analyzer(const char *o) { (void)o; DIE("flux_new_stateful_analyzer"); }
void flux_free_stateful_analyzer(struct flux_stateful_analyzer_t *a) { (void)a; }
struct flux_error_t *flux_analyze_with(struct flux_stateful_analyzer_t *a, const char *s, struct flux_ast_pkg_t *p, struct flux_semantic_pkg_t **o) { (void)a; (void)s; (void)p; (void)o; DIE("flux_analyze_with"); }
struct flux_error_t *flux_analyze(struct flux_ast_pkg_t *p, const char *o, struct flux_semantic_pkg_t **out) { (void)p; (void)o; (void)out; DIE("flux_analyze"); }
struct flux_error_t *flux_find_var_type(struct flux_semantic_pkg_t *p, const char *n, struct flux_buffer_t *b) { (void)p; (void)n; (void)b; DIE("flux_find_var_type"); }
void flux_free_semantic_pkg(struct flux_semantic_pkg_t *p) { (void)p; }
struct flux_error_t *flux_semantic_marshal_fb(struct flux_semantic_pkg_t *p, struct flux_buffer_t *b) { (void)p; (void)b; DIE("flux_semantic_marshal_fb"); }
