#ifndef _INFLUXDATA_FLUX_H
#define _INFLUXDATA_FLUX_H

#include <stddef.h>

#ifdef __cplusplus
extern "C" {
#endif

// flux_buffer_t is a reference to a byte-slice.
struct flux_buffer_t {
	// data is a pointer to the data contained within the buffer.
	char *data;

	// len is the length of the buffer.
	size_t len;
};

// flux_error_t represents a flux error.
struct flux_error_t;

// flux_semantic_packages will return a flatbuffer vector of the packages
void flux_semantic_packages(struct flux_buffer_t *);

// flux_free_error will release memory associated with an error.
void flux_free_error(struct flux_error_t *);

// flux_error_str will return a string representation of the error.
// The string returned is a borrowed reference to the error, and
// becomes invalid when the error is freed.
const char *flux_error_str(struct flux_error_t *);

// Prints the flux error to stdout
void flux_error_print(struct flux_error_t *);

// flux_free_bytes will release the memory pointed to by the pointer argument.
void flux_free_bytes(const char *);

// flux_ast_pkg_t is the AST representation of a flux query as a package.
struct flux_ast_pkg_t;

// flux_parse will take in a file name string and a source string then
// return the AST representation of the query.
struct flux_ast_pkg_t *flux_parse(const char *file_name, const char *flux_source);

// flux_ast_format will take an AST and format it to a single string.
// It will allocate a buffer that needs to be freed after use with flux_free_bytes.
struct flux_error_t *flux_ast_format(struct flux_ast_pkg_t *, struct flux_buffer_t *);

// flux_ast_get_error will return the first error in the AST, if any.
struct flux_error_t *flux_ast_get_error(struct flux_ast_pkg_t *, const char* options);

// flux_free_ast_pkg will release the memory associated with the given pointer.
void flux_free_ast_pkg(struct flux_ast_pkg_t *);

// flux_merge_ast_pkgs merges the files of a given input AST package into the file vector of a
// given output AST package. This function borrows the packages, but it does not own them. The
// caller of this function still needs to free the package memory on the Go side.
struct flux_error_t *flux_merge_ast_pkgs(struct flux_ast_pkg_t *, struct flux_ast_pkg_t *);

// flux_parse_json will take in a JSON string for an AST package
// and populate its second pointer argument with a pointer to an
// AST package.
// Note that the caller should free the pointer to the AST, not the pointer to the pointer
// to the AST.  It is the former that references memory allocated by Rust.
// If an error happens it will be returned. The error must be freed
// using flux_free_error if it is non-null.
struct flux_error_t *flux_parse_json(const char *, struct flux_ast_pkg_t **);

// flux_free_ast_pkg will release the memory associated with the given pointer.
void flux_free_ast_pkg(struct flux_ast_pkg_t *);

// flux_merge_ast_pkgs merges the files of a given input AST package into the file vector of a
// given output AST package. This function borrows the packages, but it does not own them. The
// caller of this function still needs to free the package memory on the Go side.
struct flux_error_t *flux_merge_ast_pkgs(struct flux_ast_pkg_t *, struct flux_ast_pkg_t *);

// flux_ast_marshal_json will marshal json and fill in the given buffer
// with the data. If successful, memory will be allocated for the data
// within the buffer and it is the caller's responsibility to free this
// data. If an error happens it will be returned. The error must be freed
// using flux_free_error if it is non-null.
struct flux_error_t *flux_ast_marshal_json(struct flux_ast_pkg_t *, struct flux_buffer_t *);

// flux_get_env_stdlib instantiates a flatbuffers TypeEnvironment and creates a pointer
// to it to use when performing lookups on the stdlib
void flux_get_env_stdlib(struct flux_buffer_t *);

// flux_semantic_pkg_t represents a semantic graph package node, including all of its files
// and their contents.
struct flux_semantic_pkg_t;

// flux_stateful_analyzer_t represents a semantic analyzer that can be used to iteratively
// analyze snippets of code.
struct flux_stateful_analyzer_t;

// flux_new_stateful_analyzer creates a new semantic analyzer for the given package path.
// The returned analyzer must be freed with flux_free_stateful_analyzer().
struct flux_stateful_analyzer_t *flux_new_stateful_analyzer(const char * options);

// flux_free_stateful_analyzer frees a previously allocated semantic analyzer.
void flux_free_stateful_analyzer(struct flux_stateful_analyzer_t *);

// flux_analyze_with will analyze the ast snippet using the flux_stateful_analyzer_t and produce
// a semantic graph for that snippet.
struct flux_error_t *flux_analyze_with(struct flux_stateful_analyzer_t *, const char * src, struct flux_ast_pkg_t *, struct flux_semantic_pkg_t **);

// flux_analyze analyzes the given AST and will populate the second pointer argument with
// a pointer to the resulting semantic graph.
// It is the caller's responsibility to free the resulting semantic graph with a call to flux_free_semantic_pkg().
// Note that the caller should free the pointer to the semantic graph, not the pointer to the pointer
// to the semantic graph.  It is the former that references memory allocated by Rust.
// If analysis fails, the second pointer argument wil be pointed at 0, and an error will be returned.
// Any non-null error must be freed by calling flux_free_error.
// Regardless of whether an error is returned, this function will consume and free its
// flux_ast_pkg_t* argument, so it should not be reused after calling this function.
struct flux_error_t *flux_analyze(struct flux_ast_pkg_t *, const char * options, struct flux_semantic_pkg_t **);

// Find out the type of a variable referenced in the given Flux AST and return a MonoType flat buffer for it.
// The Flux AST should not contain any definition for the referenced variable.
// A type variable for the designated variable will be automatically injected into the type environment
// that will be used in semantic analysis.
// The second parameter is the variable identifier string.
struct flux_error_t *flux_find_var_type(struct flux_semantic_pkg_t *, const char *, struct flux_buffer_t *);

// flux_free_semantic_pkg will release the memory associated with the given pointer.
void flux_free_semantic_pkg(struct flux_semantic_pkg_t*);

// flux_semantic_marshal_fb will marshal the given semantic graph as a flatbuffer into
// the given buffer. If successful, memory will be allocated for the data
// within the buffer and it is the caller's responsibility to free this
// data. If an error happens it will be returned. The error must be freed
// using flux_free_error if it is non-null.
struct flux_error_t *flux_semantic_marshal_fb(struct flux_semantic_pkg_t *, struct flux_buffer_t *);

#ifdef __cplusplus
}
#endif

#endif
