# Sourced by every script: offline Go env + the libflux link stub (DESIGN.md §1).
# CGO_LDFLAGS carries the -L as well because Go's build cache does not re-key the
# cgo libflux package on pkg-config *output* (a stale -L from an earlier stub
# location would otherwise survive in the cache).
export VERIF_ROOT=/verif
export PKG_CONFIG_PATH=/verif/stubs/libflux
export CGO_LDFLAGS="-g -O2 -L/verif/stubs/libflux"
export GOFLAGS=-mod=mod
export GOPROXY=off
unset GOTOOLCHAIN GOSUMDB
