#!/usr/bin/env python3
"""Shared machinery for /verif/bin/check (DESIGN.md §3.6).

Exit codes of a check: 0 = property held on everything explored (possibly with
KNOWN-FINDING lines), 1 = VIOLATION line printed, 2 = the check itself is broken
(build failure, dead driver, TLC error, timeout) - never a verdict.
"""
import concurrent.futures
import json
import os
import re
import shutil
import subprocess
import sys
import tempfile
import time

VERIF = "/verif"
SPEC = os.path.join(VERIF, "spec")
REPO = os.environ.get("VERIF_REPO", "/repo")
_KEY = re.sub(r"[^A-Za-z0-9]", "_", REPO)
KVH = os.path.join(VERIF, "harness", "bin", "kvh-" + _KEY)
T0 = time.time()


class Broken(Exception):
    """The check machinery failed (exit 2)."""


def log(*a):
    print("[check]", *a, flush=True)


def goenv():
    e = dict(os.environ)
    e.update({
        "PKG_CONFIG_PATH": "/verif/stubs/libflux",
        "CGO_LDFLAGS": "-g -O2 -L/verif/stubs/libflux",
        "GOFLAGS": "-mod=mod",
        "GOPROXY": "off",
    })
    e.pop("GOTOOLCHAIN", None)
    e.pop("GOSUMDB", None)
    return e


_built = {}


def build_harness(pkg=None):
    """Rebuild the stub (if missing) and the harness binary for one driver package
    (tag drv_<pkg>) against the tree under test.  Returns the binary path.
    Without pkg only the module file / import stubs are refreshed."""
    if pkg in _built:
        return _built[pkg]
    t = time.time()
    if not os.path.exists("/verif/stubs/libflux/libflux.a"):
        r = subprocess.run("cd /verif/stubs/libflux && gcc -O1 -c flux.c -o flux.o && ar rcs libflux.a flux.o",
                           shell=True, capture_output=True, text=True)
        if r.returncode != 0:
            raise Broken("libflux stub build failed: " + r.stderr)
    r = subprocess.run([os.path.join(VERIF, "bin", "genmod")], capture_output=True, text=True)
    if r.returncode != 0:
        raise Broken("genmod failed: " + r.stderr)
    modfile = r.stdout.strip().splitlines()[-1]
    if pkg is None:
        _built[None] = None
        return None
    out = KVH + "-" + pkg
    r = subprocess.run(["go", "build", "-tags", "verif drv_" + pkg, "-modfile", modfile, "-o", out, "./cmd/kvh"],
                       cwd=os.path.join(VERIF, "harness"), env=goenv(), capture_output=True, text=True)
    if r.returncode != 0:
        raise Broken("harness build failed (does %s still compile?):\n" % REPO + r.stdout + r.stderr)
    _built[pkg] = out
    log("harness %s built in %.1fs" % (pkg, time.time() - t))
    return out


def driver_pkg(name):
    m = re.match(r"c\d+", name)
    if not m:
        raise Broken("driver name %r must start with its package name cNN" % name)
    return m.group(0)


class Scratch:
    def __init__(self):
        self.dir = tempfile.mkdtemp(prefix="kvh-")

    def sub(self, name):
        p = os.path.join(self.dir, name)
        os.makedirs(p, exist_ok=True)
        return p

    def cleanup(self):
        shutil.rmtree(self.dir, ignore_errors=True)


def _spec_copy(scratch, module_dir):
    """TLC litters its cwd: run in a scratch copy of the spec dir + common modules."""
    dst = tempfile.mkdtemp(prefix="spec-", dir=scratch.dir)
    for d in (os.path.join(SPEC, "common"), os.path.join(SPEC, module_dir)):
        for f in os.listdir(d):
            if f.endswith((".tla", ".cfg")):
                shutil.copy(os.path.join(d, f), dst)
    return dst


_RE_STATES = re.compile(r"(\d+) states generated, (\d+) distinct states found")
_RE_INV = re.compile(r"Error: (Invariant (\S+) is violated|Action property (\S+) is violated|Temporal properties were violated|Deadlock reached)")
_RE_REJ = re.compile(r'"TRACE-REJECTED at line", (\d+), "of", (\d+)')
_RE_KF = re.compile(r'"KF-HIT", "([^"]+)"')


def run_tlc(scratch, module_dir, module, cfg, workers=16, timeout=900, env_extra=None, extra_args=None, heap=None):
    """Run TLC (retrying once on an internal TLC/IO error, seen under heavy CPU oversubscription:
    'when reading pool file ... No such file')."""
    try:
        return _run_tlc(scratch, module_dir, module, cfg, workers, timeout, env_extra, extra_args)
    except Broken as e:
        if "timed out" in str(e):
            raise
        log("TLC failed internally, retrying once: %s" % str(e).splitlines()[-1][:200])
        return _run_tlc(scratch, module_dir, module, cfg, max(1, workers // 2), timeout, env_extra, extra_args)


import contextlib
import fcntl

_SLOTS = 20   # machine-wide budget of "TLC weight" (1 per trace-validation JVM, workers/4 per exhaustive run)


@contextlib.contextmanager
def tlc_slots(weight):
    """Machine-wide limiter for concurrent TLC JVMs (checks of several properties may run at once):
    acquires `weight` of _SLOTS lock files under /tmp/kvh-tlc-slots; purely a courtesy, never a verdict."""
    os.makedirs("/tmp/kvh-tlc-slots", exist_ok=True)
    held = []
    try:
        deadline = time.time() + 900
        while len(held) < weight:
            got = False
            for k in range(_SLOTS):
                fp = "/tmp/kvh-tlc-slots/slot%02d" % k
                if any(h[0] == fp for h in held):
                    continue
                f = open(fp, "w")
                try:
                    fcntl.flock(f, fcntl.LOCK_EX | fcntl.LOCK_NB)
                    held.append((fp, f))
                    got = True
                    break
                except OSError:
                    f.close()
            if not got:
                if time.time() > deadline:
                    break   # waited long enough: go ahead anyway
                for _, f in held:   # do not hold partial sets while waiting (deadlock avoidance)
                    f.close()
                held = []
                time.sleep(0.5 + 0.5 * (os.getpid() % 7) / 7.0)
        yield
    finally:
        for _, f in held:
            f.close()


def _run_tlc(scratch, module_dir, module, cfg, workers, timeout, env_extra, extra_args):
    """Run TLC; returns dict(ok, states, distinct, violated, out, wall)."""
    d = _spec_copy(scratch, module_dir)
    meta = tempfile.mkdtemp(prefix="meta-", dir=scratch.dir)
    env = dict(os.environ)
    # The tlc wrapper sets no -Xmx: every JVM would grow towards 25% of RAM.  Cap it (callers may override).
    if workers <= 1:
        env.setdefault("JAVA_TOOL_OPTIONS", "-Xmx2g -XX:ParallelGCThreads=2")
    else:
        env.setdefault("JAVA_TOOL_OPTIONS", "-Xmx8g -XX:ParallelGCThreads=4")
    if env_extra:
        env.update(env_extra)
    cmd = ["timeout", str(timeout), "tlc", "-workers", str(workers), "-metadir", meta, "-config", cfg]
    if extra_args:
        cmd += extra_args
    cmd.append(module)
    with tlc_slots(max(1, workers // 4)):
        t = time.time()
        r = subprocess.run(cmd, cwd=d, env=env, capture_output=True, text=True)
    out = r.stdout + r.stderr
    wall = time.time() - t
    shutil.rmtree(meta, ignore_errors=True)
    if r.returncode == 137 or "OutOfMemoryError" in out:
        raise Broken("TLC was killed / ran out of memory on %s/%s (rc=%d)" % (module_dir, cfg, r.returncode))
    res = {"rc": r.returncode, "out": out, "wall": wall, "states": 0, "distinct": 0, "violated": None,
           "rejected_at": None, "kf": sorted(set(_RE_KF.findall(out))), "dir": d}
    m = None
    for m in _RE_STATES.finditer(out):
        pass
    if m:
        res["states"], res["distinct"] = int(m.group(1)), int(m.group(2))
    mi = _RE_INV.search(out)
    if mi:
        res["violated"] = mi.group(2) or mi.group(3) or mi.group(1)
    mr = _RE_REJ.search(out)
    if mr:
        res["rejected_at"] = int(mr.group(1))
        res["trace_len"] = int(mr.group(2))
    res["completed"] = ("Model checking completed" in out) or ("Finished in" in out and "Error:" not in out)
    if r.returncode == 124:
        raise Broken("TLC timed out after %ds on %s/%s" % (timeout, module_dir, cfg))
    # anything that is neither a clean pass, an invariant violation nor a trace rejection is a broken check
    if "Error:" in out and not mi and not mr:
        raise Broken("TLC error on %s/%s:\n%s" % (module_dir, cfg, _tail(out)))
    if not m and "Error:" not in out:
        raise Broken("TLC produced no result on %s/%s:\n%s" % (module_dir, cfg, _tail(out)))
    return res


def _tail(s, n=40):
    return "\n".join(s.splitlines()[-n:])


def model_check(scratch, module_dir, module, cfg, workers=16, timeout=900, expect_violation=None):
    """Design-level exhaustive check.  A violated invariant in the *model* is not a
    verdict about the code (DESIGN §2.2): it makes the check broken unless listed in
    expect_violation (observations we deliberately evaluate and report)."""
    res = run_tlc(scratch, module_dir, module, cfg, workers=workers, timeout=timeout)
    if res["violated"]:
        if expect_violation and res["violated"] in expect_violation:
            log("model %s/%s: expected counterexample for %s (observation only)" % (module_dir, cfg, res["violated"]))
        else:
            raise Broken("model %s/%s violates %s - the specification itself is inconsistent:\n%s" %
                         (module_dir, cfg, res["violated"], _tail(res["out"], 60)))
    log("model %s/%s: %d states, %d distinct, %.1fs" % (module_dir, cfg, res["states"], res["distinct"], res["wall"]))
    return res


def run_driver(scratch, name, tier, seed, timeout=1800, args=None, outname=None):
    """Run `kvh <name>`; returns (outdir, meta)."""
    kvh = build_harness(driver_pkg(name))
    out = scratch.sub(outname or ("drv-" + name))
    cmd = ["timeout", str(timeout), kvh, name, "-tier", tier, "-seed", str(seed), "-out", out] + (args or [])
    t = time.time()
    r = subprocess.run(cmd, env=goenv(), capture_output=True, text=True)
    if r.returncode != 0:
        full = r.stdout + r.stderr
        head = ""
        ls = full.splitlines()
        for i, ln in enumerate(ls):
            if ln.startswith("panic:") or ln.startswith("fatal error:"):
                head = "\n".join(ls[i:i + 45]) + "\n...\n"     # the Go runtime's report starts here (the tail below may not reach it)
                break
        raise Broken("driver %s failed (rc=%d):\n%s%s" % (name, r.returncode, head, _tail(full, 60)))
    mp = os.path.join(out, "meta.json")
    if not os.path.exists(mp):
        raise Broken("driver %s wrote no meta.json" % name)
    meta = json.load(open(mp))
    log("driver %s: %d traces, %d events, %.1fs" % (name, meta["traces"], meta["events"], time.time() - t))
    return out, meta


def split_trace(path, parts, scratch):
    """Split a concatenated trace file at Reset lines into <= parts files of similar size."""
    lines = open(path).read().splitlines()
    if parts <= 1 or len(lines) < 2000:
        return [path]
    starts = [i for i, ln in enumerate(lines) if ln.startswith('{"ev":"Reset"')]
    if not starts or starts[0] != 0:
        return [path]
    target = len(lines) / parts
    files, cur_start, nxt = [], 0, target
    bounds = []
    for s in starts[1:]:
        if s >= nxt:
            bounds.append((cur_start, s))
            cur_start = s
            nxt = s + target
    bounds.append((cur_start, len(lines)))
    d = tempfile.mkdtemp(prefix="split-", dir=scratch.dir)
    for k, (a, b) in enumerate(bounds):
        fp = os.path.join(d, "part%03d.ndjson" % k)
        with open(fp, "w") as f:
            f.write("\n".join(lines[a:b]) + "\n")
        files.append(fp)
    return files


def validate_traces(scratch, module_dir, module, cfg, files, timeout=1800, parallel=12, env_extra=None):
    """Validate NDJSON trace files against a trace spec.  Returns dict with
    accepted(bool), rejections [(file, line_no)], kf (set of known-finding keys hit)."""
    parts = []
    for f in files:
        parts += split_trace(f, parallel, scratch)
    rej, kf, states = [], set(), 0

    def one(fp):
        ee = {"TRACE_FILE": fp}
        if env_extra:
            ee.update(env_extra)
        return fp, run_tlc(scratch, module_dir, module, cfg, workers=1, timeout=timeout, env_extra=ee)

    t = time.time()
    with concurrent.futures.ThreadPoolExecutor(max_workers=parallel) as ex:
        for fp, res in ex.map(one, parts):
            states += res["distinct"]
            kf.update(res["kf"])
            if res["rejected_at"] is not None:
                rej.append((fp, res["rejected_at"], res))
            elif res["violated"]:
                rej.append((fp, None, res))
            elif "Postcondition" in res["out"] and "is false" in res["out"]:
                rej.append((fp, None, res))
    log("trace validation %s/%s: %d file(s), %d spec states, %d rejection(s), %.1fs" %
        (module_dir, cfg, len(parts), states, len(rej), time.time() - t))
    return {"accepted": not rej, "rejections": rej, "kf": kf, "states": states}


def segment_of(fp, line_no):
    """The trace (Reset .. offending line) that contains 1-based line_no."""
    lines = open(fp).read().splitlines()
    if line_no is None or line_no > len(lines):
        line_no = len(lines)
    start = 0
    for i in range(line_no - 1, -1, -1):
        if lines[i].startswith('{"ev":"Reset"'):
            start = i
            break
    end = line_no
    # include the rest of this trace for context
    rest = line_no
    while rest < len(lines) and not lines[rest].startswith('{"ev":"Reset"'):
        rest += 1
    return lines[start:end], lines[end:rest]


def save_replay(prop, what, seg, rest, res, extra=None):
    d = os.path.join(os.environ.get("VERIF_REPLAY_DIR") or os.path.join(VERIF, "replays"), "%s-%d-%d" % (prop, int(time.time()), os.getpid()))
    k = 0
    base = d
    while os.path.exists(d):
        k += 1
        d = "%s-%d" % (base, k)
    os.makedirs(d)
    with open(os.path.join(d, "segment.ndjson"), "w") as f:
        f.write("\n".join(seg) + "\n")
    with open(os.path.join(d, "rest_of_trace.ndjson"), "w") as f:
        f.write("\n".join(rest) + ("\n" if rest else ""))
    with open(os.path.join(d, "README.txt"), "w") as f:
        f.write("property %s: %s\n" % (prop, what))
        f.write("segment.ndjson: the recorded execution of the real code from its Reset up to and including\n"
                "the first line the specification cannot explain (the last line).\n")
        f.write("re-run: /verif/bin/check %s --replay %s\n" % (prop, d))
        if extra:
            f.write(extra + "\n")
    if res is not None:
        with open(os.path.join(d, "tlc_output.txt"), "w") as f:
            f.write(res["out"])
    return d


# ---------- known findings ----------

def known_findings(prop):
    """Entries of KNOWN_FINDINGS.txt for prop: {key: description}. `fixed:` lines suppress nothing."""
    out = {}
    p = os.path.join(VERIF, "KNOWN_FINDINGS.txt")
    if not os.path.exists(p):
        return out
    for ln in open(p):
        ln = ln.strip()
        if not ln or ln.startswith("#") or ln.startswith("fixed:"):
            continue
        m = re.match(r"property=(\S+)\s+key=(\S+)\s+(.*)", ln)
        if m and m.group(1) == prop:
            out[m.group(2)] = m.group(3)
    return out


# ---------- evidence ----------

def write_evidence(prop, tier, seed, level, coverage, assumptions, violations):
    evdir = os.environ.get("VERIF_EVIDENCE_DIR") or os.path.join(VERIF, "evidence")
    os.makedirs(evdir, exist_ok=True)
    ev = {
        "property_id": prop, "tier": tier, "seed": int(seed), "level": level,
        "coverage": coverage, "assumptions": assumptions,
        "wall_s": round(time.time() - T0, 2), "violations": int(violations),
    }
    p = os.path.join(evdir, prop + ".json")
    tmp = p + ".tmp"
    with open(tmp, "w") as f:
        json.dump(ev, f, indent=1, sort_keys=True)
        f.write("\n")
    os.replace(tmp, p)
    return p


class Result:
    """Accumulates the outcome of one check run."""

    def __init__(self, prop, tier, seed):
        self.prop, self.tier, self.seed = prop, tier, seed
        self.violations = []      # (what, replay_dir)
        self.kf_hits = {}         # key -> description
        self.states = 0
        self.transitions = 0
        self.traces = 0
        self.events = 0
        self.samples = []
        self.notes = {}
        self.exhaustive = None
        self.distinct = 0
        self.rule = ""

    def add_model(self, res):
        self.states += res["distinct"]
        self.transitions += res["states"]

    def add_meta(self, meta):
        self.traces += meta["traces"]
        self.events += meta["events"]
        self.distinct += meta.get("distinct_nontrivial", 0)
        if meta.get("rule"):
            self.rule = (self.rule + " | " if self.rule else "") + meta["rule"]
        for s in meta.get("samples", []):
            if len(self.samples) < 4:
                self.samples.append(s)
        if self.exhaustive is None:
            self.exhaustive = bool(meta.get("exhaustive"))
        else:
            self.exhaustive = self.exhaustive and bool(meta.get("exhaustive"))
        if meta.get("extra"):
            self.notes.update(meta["extra"])

    def handle_validation(self, val, what="trace rejected by the specification"):
        """Turn trace rejections into violations (with replay dirs) and KF hits into known findings."""
        kfs = known_findings(self.prop)
        for key in val["kf"]:
            if key in kfs:
                self.kf_hits[key] = kfs[key]
            else:
                # a deviation branch was taken that is not (or no longer) listed: that is a violation
                d = save_replay(self.prop, "deviation %s taken but not listed in KNOWN_FINDINGS.txt" % key, [], [], None)
                self.violations.append(("unlisted deviation " + key, d))
        for fp, line_no, res in val["rejections"]:
            seg, rest = segment_of(fp, line_no)
            d = save_replay(self.prop, what, seg, rest, res)
            self.violations.append((what + " at " + (seg[-1][:200] if seg else "?"), d))

    def finish(self, level, assumptions, extra_cov=None):
        cov = {
            "states": self.states, "transitions": self.transitions,
            "traces_validated_against_impl": self.traces,
            "samples": self.samples if self.samples else [{"note": "no trace samples"}],
            "evaluations": max(self.traces, 1),
            "distinct_nontrivial": max(self.distinct, 0),
            "rule": self.rule,
            "events": self.events,
            "exhaustive": bool(self.exhaustive),
            "known_findings_hit": sorted(self.kf_hits),
        }
        cov.update(self.notes)
        if extra_cov:
            cov.update(extra_cov)
        write_evidence(self.prop, self.tier, self.seed, level, cov, assumptions, len(self.violations))
        for key, desc in sorted(self.kf_hits.items()):
            print("KNOWN-FINDING: property=%s %s (%s)" % (self.prop, desc, key), flush=True)
        if self.violations:
            for what, d in self.violations[:5]:
                print("VIOLATION property=%s replay=%s" % (self.prop, d), flush=True)
                log("  ", what)
            return 1
        log("%s %s: held on everything explored (%.1fs)" % (self.prop, self.tier, time.time() - T0))
        return 0
